-------------------------- MODULE Scen_SignerCaller --------------------------
(* Scenario generator for C06 at the boundary of Vouch (SignerCaller.tla): histories of duty        *)
(* deliveries on ONE wired instance (real attester in front of the real signer, real account       *)
(* manager and validators manager behind it, real submitter; fakes at the beacon node).            *)
(* A history is: the instance (which of our validators have a validating account), the chain (fork *)
(* epoch, start-up input) and the sequence of duties delivered - every duty of Duties for every    *)
(* delivery, so re-delivered / rescheduled duties that list validators that already attested this  *)
(* epoch, in any place of the list, are in the alphabet.  The protocol's own steps between two     *)
(* deliveries are sequential code of the real services; the generator records per delivery what    *)
(* the PROTOCOL filters (elig) and serves, as the antecedent the check counts - the driver does    *)
(* not read them.                                                                                  *)
EXTENDS SignerCaller, Json

VARIABLE hist
svars == <<allvars, hist>>

SInit == /\ fork \in ForkEpochs /\ boot \in Boots /\ svc = "up" /\ InitRequests /\ CallerInit
         /\ hist = <<[ev |-> "Reset", fork |-> fork, boot |-> boot, table |-> DomainTypeBytes,
                      acct |-> [v \in Validators |-> acct[v]]]>>

SDeliver(r, d) ==
    /\ Deliver(r, d)
    /\ hist' = Append(hist, [ev |-> "Deliver", op |-> d.op, rid |-> r, slot |-> d.slot, entries |-> d.entries,
                             elig |-> elig'[r], served |-> SelectSeq(elig'[r], HasAccount)])

\* the sequential code of the real services runs to the end of Attest (not replayed here: the recorded trace is
\* validated against SignerCaller.tla step by step)
SFinish(r) ==
    /\ cpc[r] = "delivered"
    /\ cpc' = [cpc EXCEPT ![r] = "finished"]
    /\ UNCHANGED <<vars, acct, attested, duty, elig, cal, submitted, hist>>

SNext ==
    \/ \E r \in Rids : cpc[r] = "none" /\ MayStart(r) /\ \E d \in Duties : SDeliver(r, d)
    \/ \E r \in Rids : SFinish(r)

SSpec == SInit /\ [][SNext]_svars

AllFinished == \A r \in Rids : cpc[r] = "finished"
Emit == AllFinished => PrintT(ToJson(hist))
=============================================================================
