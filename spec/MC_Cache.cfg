SPECIFICATION Spec
CONSTANTS
  Roots = {1, 2, 3}
  Slots = {0, 1, 3, 5}
  Nows = {0, 3, 5, 7}
  SlotsPerEpoch = 2
  Retention = 1
INVARIANTS TypeOK MapSound LookupRight ErrorNotSlot
PROPERTY CleanOnlyOld
