---------------------- MODULE Trace_BlockRelayResolve ----------------------
(* Trace specification for the resolution clause of C11: a trace recorded from ONE wired instance     *)
(* per history (real block relay service, real wallet account manager + validators manager, real      *)
(* signer, real proposal preparer, go-builder-client HTTP clients to recording relay servers,          *)
(* recording beacon nodes) is a behaviour of BlockRelayResolve.  One line per step, written after      *)
(* the step returned:                                                                                 *)
(*   Reset    the instance was built (init = the document its inline fetch obtained; what the account  *)
(*            manager holds / lists, read from the manager itself)                                    *)
(*   Fetch    the fetch job ran (out, doc; asked = the source was really asked)                        *)
(*   Act      a validator became active (route); now = what the manager lists afterwards               *)
(*   Round    the registration job ran (via job) or SubmitValidatorRegistrations was called (via api): vs = the accounts the manager listed to it, regs = what the     *)
(*            relay servers received <<v, relay, fee, gas>>, sigok = every signature verifies with the  *)
(*            validator's key over exactly the message, nodes = what the secondary nodes received       *)
(*   Prep     the preparer ran: vs likewise, preps = <<node, v, fee>> received                         *)
(*   Call     kind fwd: ValidatorRegistrations with one registration of v (content c); regs = what the  *)
(*            relay servers received of it, same = signature and timestamp arrived unchanged            *)
(*            kind unblind / auction / bid: the entry point was called and returned                    *)
(*   Crash / Hung   a panic / a step that did not return: no action allows them                        *)
EXTENDS BlockRelayResolve, TraceLib

VARIABLE l
tvars == <<vars, l>>

TraceInit == l = 1 /\ Init /\ force = 0 /\ st = [v \in Vals |-> "foreign"] /\ InitHWM

IsEvent(e) == l <= TraceLen /\ Trace[l].ev = e /\ l' = l + 1
Line == Trace[l]

TraceReset ==
    /\ IsEvent("Reset")
    /\ ~("skipped" \in DOMAIN Line)
    /\ force' = Line.init
    /\ st' = [v \in Vals |-> IF v \in SeqToSet(Line.active) THEN "active"
                             ELSE IF v \in SeqToSet(Line.pending) THEN "pending" ELSE "foreign"]
    /\ controlled' = {}
    /\ memo' = [k \in MemoKeys |-> NoMemo]
    /\ last' = NoLast

\* (after three abandoned histories the driver does not execute the rest of the batch)
TraceSkipped == IsEvent("Reset") /\ "skipped" \in DOMAIN Line /\ UNCHANGED vars

TraceFetch ==
    /\ IsEvent("Fetch")
    /\ IF Line.out = "good" /\ Line.asked THEN Fetch(Line.doc) ELSE FetchFails

TraceAct ==
    /\ IsEvent("Act")
    /\ Activate(Line.v, Line.route)
    /\ {v \in Vals : st'[v] = "active"} = SeqToSet(Line.now)

NoDup(s) == Cardinality(SeqToSet(s)) = Len(s)

TraceRound ==
    /\ IsEvent("Round")
    /\ NoDup(Line.regs)                                       \* one registration per validator and relay
    /\ \A x \in SeqToSet(Line.regs) : x[1] \in SeqToSet(Line.vs)
    /\ RecRound(Line.via, SeqToSet(Line.vs),
                [v \in SeqToSet(Line.vs) |-> {<<x[2], x[3], x[4]>> : x \in {y \in SeqToSet(Line.regs) : y[1] = v}}],
                Line.sigok,
                {<<x[1], x[2], x[3]>> : x \in SeqToSet(Line.nodes)})

TracePrep ==
    /\ IsEvent("Prep")
    /\ NoDup(Line.preps)
    /\ RecPrep(SeqToSet(Line.vs), {<<x[1], x[2], x[3]>> : x \in SeqToSet(Line.preps)})

TraceCall ==
    /\ IsEvent("Call")
    /\ \/ /\ Line.kind = "fwd"
          /\ NoDup(Line.regs) /\ Line.same
          /\ RecFwd(Line.v, <<Line.c[1], Line.c[2]>>, {<<x[1], x[2], x[3]>> : x \in SeqToSet(Line.regs)})
       \/ Line.kind = "unblind" /\ DoUnblind(Line.v)
       \/ Line.kind = "auction" /\ DoAuction(Line.v)
       \/ Line.kind = "bid" /\ DoBid(Line.v)

TraceNext == TraceReset \/ TraceSkipped \/ TraceFetch \/ TraceAct \/ TraceRound \/ TracePrep \/ TraceCall

TraceSpec == TraceInit /\ [][TraceNext]_tvars

HWM == UpdateHWM(l)
TraceAccepted == TraceAcceptedUpTo
=============================================================================
