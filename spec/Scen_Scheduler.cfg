SPECIFICATION SSpec
CONSTANTS
  Callers = {"c1", "c2"}
  Cancellers = {"k1"}
  Periodic = FALSE
  DeleteByName = FALSE
  ClaimIgnoresCancel = FALSE
  PrefixCancellers = {}
  BlockingSend = FALSE
  DropOnClaim = FALSE
  MaxRuns = 1
  ScenLen = 16
INVARIANTS Emit
CHECK_DEADLOCK FALSE
