SPECIFICATION LSpec
CONSTANTS
  Ops = {1, 2}
  MaxInFlight = 2
  Kinds = {"fetch", "lookup", "auction", "bbid", "register", "vreg"}
  Keys = {1, 2}
  Install = "plain"
  BidImpl = "leak_on_recheck"
INVARIANTS TypeOKL NoDeadlock ReturnsClean LockBalanced LockAccounting

CHECK_DEADLOCK FALSE
