SPECIFICATION BSpec
CONSTANTS
  SlotsPerEpoch = 32
  Slots = {31, 32}
  GivenEpochs = {3}
  MaxBatch = 1
  NReq = 1
  ForkEpochs = {1}
  BootOps = {"attestation", "proposal", "randao", "slot_selection", "sync_selection", "aggregate_and_proof", "sync_root", "contribution", "blob_sidecar", "registration"}
  Boots <- BootsAll
  Fallback <- RightDefault
INVARIANTS TypeOK DomainRight Memoryless HandedOwn SigCorrect NoSignatureWithoutDomain ErrorHasNoSignatures RefusedForCause
CHECK_DEADLOCK FALSE
