SPECIFICATION TraceSpec
CONSTANTS
  SlotsPerEpoch = 3
  EpochsPerPeriod = 3
  Forks = {0}
  Nows = {0}
  ScheduleEpochs = {0}
  Members = {1}
  IndexSets = {{0}}
  Sizes = {1}
  SubnetCounts = {1}
  Targets = {1}
  Roots = {1}
  HVals = {0}
  HMod = 840
  MaxSched = 1000
  FaultKinds = {"sel", "root", "cp", "selerr", "rooterr", "cperr"}
  Deviation = "none"
  MaxFired = 1000
INVARIANTS TraceTypeOK EverySlotOfWindow OnlySlotsOfWindow JobOrder SignedOverObtainedRoot MembersIndependent AggregatorRuleExact
CONSTRAINT HWM
POSTCONDITION TraceAccepted
CHECK_DEADLOCK FALSE
