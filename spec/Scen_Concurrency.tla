--------------------------- MODULE Scen_Concurrency ---------------------------
(* Schedule generator for C17: for every group TLC enumerates the overlap patterns (1..MaxPar     *)
(* operations in gate-release order, at most two instances of each) and the environment twist     *)
(* applied between the sequential prologue and the overlapping operations.  One printed behaviour  *)
(* = one schedule: [g, pre (sequential calls), par (overlapping calls in release order), hold (how   *)
(* the environment resolves the overlap: free-running, or one call held at an interface)].          *)
EXTENDS Concurrency, Json

VARIABLE hist
svars == <<vars, hist>>

SInit == Init /\ hist = <<>>

SetToSeq(S) == CHOOSE f \in [1..Cardinality(S) -> S] : \A i, j \in 1..Cardinality(S) : i < j => f[i] < f[j]

\* sets inside operations are printed as sorted sequences
Enc(o) == [k \in DOMAIN o |-> IF k \in {"x", "v", "acct"} /\ o.op \in {"NodeSet", "Attest", "Round", "RestRegs", "Offer", "Env", "Config"} THEN SetToSeq(o[k]) ELSE o[k]]
EncSeq(s) == [i \in DOMAIN s |-> Enc(s[i])]

SNext ==
    /\ hist = <<>>
    /\ \E t \in Twists(g) : \E s \in Schedules(g) : \E h \in Holds(g, s) :
          hist' = <<[ev |-> "Schedule", g |-> g, pre |-> EncSeq(Prologue(g) \o t), par |-> EncSeq(s), hold |-> h]>>
    /\ UNCHANGED vars

SSpec == SInit /\ [][SNext]_svars

Emit == (hist # <<>>) => PrintT(ToJson(hist))
=============================================================================
