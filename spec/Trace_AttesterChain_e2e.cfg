SPECIFICATION TraceSpec
CONSTANTS
  Chain = {0, 1, 2, 3, 4}
  OursSets = {{2, 3, 4}, {0, 2, 3}}
  Managers = {"wallet", "dirk"}
  VMDesigns = {"replace", "retain"}
  SPE = 32
  Epochs = {2, 3}
  StrictVM = FALSE
  AllOffers = FALSE
  Lean = FALSE
INVARIANTS SignedByAssignee OnlyOurs
CONSTRAINT HWM
POSTCONDITION TraceAccepted
CHECK_DEADLOCK FALSE
