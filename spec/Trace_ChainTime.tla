--------------------------- MODULE Trace_ChainTime ---------------------------
(* Trace specification: samples recorded from the real chaintime/standard.Service are values of *)
(* the operators of ChainTime.tla, and the agreement laws hold at every sampled point.          *)
(*   Reset   a new service: slot duration d, slots per epoch p, genesis g (seconds, relative to *)
(*           the driver's reference instant; negative = past)                                   *)
(*   Conv    n, and the replies of StartOfSlot(n), SlotToEpoch(n), StartOfEpoch(n),             *)
(*           FirstSlotOfEpoch(n) (the epoch pair only when "e" = TRUE: kept below 2^31)         *)
(*   Now     CurrentSlot / CurrentEpoch replies with the wall-clock seconds read before (tb)    *)
(*           and after (ta) the call: some instant in between must explain the reply            *)
EXTENDS ChainTime, TraceLib

VARIABLES c, s, t, l
tvars == <<c, s, t, l>>

TraceInit ==
    /\ l = 1
    /\ c = [g |-> 0, d |-> 1, p |-> 1]
    /\ s = 0
    /\ t = 0
    /\ InitHWM

IsEvent(e) == l <= TraceLen /\ Trace[l].ev = e /\ l' = l + 1

TraceReset ==
    /\ IsEvent("Reset")
    /\ c' = [g |-> Trace[l].g, d |-> Trace[l].d, p |-> Trace[l].p]
    /\ s' = 0 /\ t' = Trace[l].g

TraceConv ==
    /\ IsEvent("Conv")
    /\ LET n == Trace[l].n IN
        /\ Trace[l].sos = StartOfSlot(c, n)
        /\ Trace[l].ste = SlotToEpoch(c, n)
        /\ Trace[l].e => /\ Trace[l].soe = StartOfEpoch(c, n)
                         /\ Trace[l].fsoe = FirstSlotOfEpoch(c, n)
                         \* the laws on the replies of the real code themselves
                         /\ Trace[l].ste_fsoe = n
                         /\ Trace[l].sos_fsoe = Trace[l].soe
        /\ s' = n
    /\ UNCHANGED <<c, t>>

TraceNow ==
    /\ IsEvent("Now")
    /\ \E x \in Trace[l].tb..Trace[l].ta :
        /\ IF Trace[l].what = "slot" THEN Trace[l].v = SlotAt(c, x) ELSE Trace[l].v = EpochAt(c, x)
        /\ t' = x
    /\ UNCHANGED <<c, s>>

TraceNext == TraceReset \/ TraceConv \/ TraceNow
TraceSpec == TraceInit /\ [][TraceNext]_tvars

\* the agreement laws at every sampled slot / instant (s * p * d stays below 2^31 by construction of the driver)
Slots == SlotLawsNoScan(c, s)
Times == TimeLaws(c, t)

HWM == UpdateHWM(l)
TraceAccepted == TraceAcceptedUpTo
=============================================================================
