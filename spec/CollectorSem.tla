----------------------------- MODULE CollectorSem -----------------------------
(* Control for the history / overlap part of Collector.tla and CollectorInst.tla: two DESIGNS     *)
(* that keep state in the service instance are not refinements of the collector, although each is *)
(* right for every single call on a fresh instance.  TLC must report a violation for either;      *)
(* checks/C07.py expects exactly that and treats anything else as a broken run.                   *)
(*                                                                                              *)
(* "SemLeak" (the class of seeded/C07-majority-semaphore-leak-on-mismatch): a response is         *)
(* validated and hashed in its provider goroutine under a service-wide semaphore of PC units made *)
(* in New(); the exit for a response that fails the validity rules does not give the unit back.   *)
(* Every call is right as long as a unit is free; each processed invalid response removes one for *)
(* the rest of the instance's life; with none left the provider goroutines of every later call    *)
(* wait for a unit until the call's context ends and deliver nothing (Starve): the call fails at  *)
(* the hard time-out although threshold-many nodes reported the same valid value at once.         *)
(*                                                                                              *)
(* "SharedTally": the tally of reported values is a field of the service (cleared when a call     *)
(* starts on an idle instance) instead of a local of the call: a response received by one call is *)
(* also counted by the call in flight beside it.  Invisible without overlap.                      *)
(*                                                                                              *)
(* SemFreshSpec (one call, fresh instance, PC >= n) satisfies every invariant of Collector.tla    *)
(* for both designs; SemSeqSpec (histories of calls, one at a time) does not for SemLeak, SemSpec *)
(* (histories with overlap) does not for either.                                                *)
EXTENDS CollectorInst

CONSTANTS PC,          \* units of the semaphore (process concurrency)
          Deviation    \* "SemLeak" | "SharedTally"

VARIABLE free          \* units of the semaphore not taken: state of the INSTANCE, carried from call to call

svars == <<ivars, free>>

\* a response with content is validated (and hashed) under the semaphore
NeedsUnit(p) == Deviation = "SemLeak" /\ beh[p].k \in {"valid", "invalid"}

\* no unit: the provider goroutine waits in Acquire until the call's context ends; nothing is delivered
Starve(p) ==
    /\ Due(p) /\ Quiescent
    /\ pst' = [pst EXCEPT ![p] = "done"]
    /\ UNCHANGED <<variant, n, thr, cap, beh, ph, clock, respCh, errCh, pc, responded, errored, timedOut, softTimedOut,
                   best, counts, rcvd, hardSel, steps, result>>

SemRespond(p) ==
    IF NeedsUnit(p)
    THEN \/ free > 0 /\ Respond(p) /\ free' = (IF beh[p].k = "invalid" THEN free - 1 ELSE free)   \* the leak
         \/ free = 0 /\ Starve(p) /\ free' = free
    ELSE Respond(p) /\ free' = free

\* the other call in flight counts the response as well
SharedRecv(p) ==
    /\ RecvResp(p)
    /\ other' = IF Deviation = "SharedTally" /\ Counting /\ other.pc \in {"loop1", "loop2"}
                THEN [other EXCEPT !.counts = [@ EXCEPT ![beh[p].v] = @ + 1]]
                ELSE other

CallStep ==
    \/ \E p \in Provs : SemRespond(p) /\ UNCHANGED other
    \/ \E p \in Provs : SharedRecv(p) /\ UNCHANGED free
    \/ \E p \in Provs : RecvErr(p) /\ UNCHANGED <<other, free>>
    \/ (SelectSoft \/ SelectHard \/ ExitLoop1 \/ Return \/ SoftExpire \/ HardExpire \/ Terminated) /\ UNCHANGED <<other, free>>

SemInit == PairInit /\ free = PC

SemFreshNext == CallStep
SemFreshSpec == SemInit /\ [][SemFreshNext]_svars

SemNext ==
    \/ CallStep
    \/ NextCall /\ UNCHANGED <<other, free>>
    \/ ~Two /\ EndCall /\ UNCHANGED <<other, free>>
    \/ (StartOverlap \/ Swap \/ Drop) /\ UNCHANGED free
SemSpec == SemInit /\ [][SemNext]_svars

\* histories without overlap (enough for a leak)
SemSeqNext ==
    \/ CallStep
    \/ (NextCall \/ EndCall) /\ UNCHANGED <<other, free>>
SemSeqSpec == SemInit /\ [][SemSeqNext]_svars

SemTypeOK == free \in 0..PC
=============================================================================
