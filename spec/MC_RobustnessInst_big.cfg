SPECIFICATION FairSpec
CONSTANTS
  EPs = {"execservice", "graffiti", "builderbid", "proposalbest", "proposer", "attester", "aggregator", "syncmessenger", "syncaggregator", "mergeduties", "cacheevents", "submitclassify"}
  MaxCalls = 4
  MaxInFlight = 2
INVARIANTS TypeOK KeepsRunning EndsProperly HistoryIndependent AuxFaultsSurvived BoundedOverlap Total
PROPERTIES EveryCallReturns
CHECK_DEADLOCK FALSE
