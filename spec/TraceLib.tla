------------------------------ MODULE TraceLib ------------------------------
(* Shared by every trace specification.  The trace is an ndjson file recorded from the real     *)
(* code (one JSON object per line); its path is passed in the environment variable VERIF_TRACE. *)
(* Many scenarios are concatenated in one file; each starts with a "Reset" line.                *)
(* Acceptance: the high-water mark of consumed lines (TLC register 1, -workers 1) must reach    *)
(* the end of the trace; every invariant of the extended specification is evaluated by TLC      *)
(* after every consumed line.                                                                   *)
EXTENDS TLC, Sequences, Naturals, Json, IOUtils

Trace == ndJsonDeserialize(IOEnv.VERIF_TRACE)

TraceLen == Len(Trace)

InitHWM == TLCSet(1, 1)

\* used as a CONSTRAINT: records the furthest position any explored state has reached
UpdateHWM(l) == TLCSet(1, IF TLCGet(1) < l THEN l ELSE TLCGet(1))

\* used as POSTCONDITION
TraceAcceptedUpTo ==
    IF TLCGet(1) = TraceLen + 1 THEN TRUE
    ELSE Print(<<"TRACE_REJECTED_AT", TLCGet(1)>>, FALSE)

Has(r, f) == f \in DOMAIN r

SeqToSet(s) == { s[i] : i \in 1..Len(s) }
=============================================================================
