SPECIFICATION SSpec
CONSTANTS
  Mode = "base"
  Subs = {"multinode"}
  KindSet = {"att", "agg", "proposal", "syncmsg", "contrib", "bcsub", "scsub", "prep"}
  ConcSet = {1}
  ItemSet = {5}
  NodeCounts = {3}
  SimCounts = {3}
  DefaultConc = 16
  MaxCalls = 1
  HistClients = {}
  HistOutcomes = {}
  Design = "asks"
  MaxLat = 2
  CanonOuts = {}
  ConfSets = {}
  OtherSets = {}
  RefKind = "att"
  BaseOutcomes = {"accept", "reject", "treject", "malformed"}
INVARIANTS Emit
CHECK_DEADLOCK FALSE
