SPECIFICATION Spec
CONSTANTS
  KindSet = {"att", "agg", "proposal", "syncmsg", "contrib", "bcsub", "scsub", "prep"}
  ConcSet = {1, 2, 3, 4}
  ItemSet = {1, 2, 3, 4, 5}
  NodeCounts = {1, 2, 3}
  DefaultConc = 16
  MaxCalls = 1
  HistClients = {}
  HistOutcomes = {}
  Design = "asks"
  MaxLat = 2
  CanonOuts = {}
  ConfSets = {}
  OtherSets = {}
  RefKind = "att"
INVARIANTS TypeOK FlagSound TimeoutSignalHeard OfferedInFull SuccessIff ReturnsByTimeout Independence DeliveredToEach ClassifiedByNow
CHECK_DEADLOCK FALSE
