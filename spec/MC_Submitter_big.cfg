SPECIFICATION Spec
CONSTANTS
  KindSet = {"att", "agg", "proposal", "syncmsg", "contrib", "bcsub", "scsub", "prep"}
  ConcSet = {1, 2, 3, 4}
  ItemSet = {1, 2, 3, 4, 5}
  NodeCounts = {1, 2, 3}
  DefaultConc = 16
INVARIANTS TypeOK FlagSound TimeoutSignalHeard OfferedInFull SuccessIff ReturnsByTimeout Independence
CHECK_DEADLOCK FALSE
