------------------------- MODULE Scen_RobustnessInst -------------------------
(* Scenario generator for the history part of C16 (RobustnessInst).  One behaviour = one HISTORY on ONE   *)
(* long-lived instance: its configuration (the probe shape), and the steps                                *)
(*    [op |-> "Call", call |-> n, shape |-> s]   the environment delivers input s (call number n)          *)
(*    [op |-> "Await", call |-> n]               ... and lets call n come back                              *)
(* A Call that is directly followed by another Call OVERLAPS with it: the driver holds the first one at    *)
(* an interface of the instance (relay, node, configuration source, file store) until its Await.            *)
(*                                                                                                        *)
(* TSpec (exhaustive): for EVERY lattice point s of every long-lived entry point two histories,             *)
(*    seq      s, s, probe, t           the same degenerate input twice (the same relay / key / validator   *)
(*                                      / file met again), then the well-formed input, then another         *)
(*                                      degenerate one                                                      *)
(*    overlap  s || t,  s || s,  s || probe,  probe   (the first of each pair is the one held)             *)
(* with t drawn by TLC (RandomElement, seeded with -seed) from the other degenerate inputs that fit the     *)
(* instance's configuration.                                                                               *)
(* RSpec (simulation): random heterogeneous histories: blocks of single calls and overlapping pairs over    *)
(* any inputs of one configuration.                                                                         *)
EXTENDS RobustnessInst, Json

VARIABLE plan
svars == <<ivars, plan>>

None == [tmpl |-> "none"]
Templates == {"seq", "overlap"}

C(n, s) == [op |-> "Call", call |-> n, shape |-> s]
A(n) == [op |-> "Await", call |-> n]
Single(n, s) == <<C(n, s), A(n)>>
Pair(n, a, b) == <<C(n, a), C(n + 1, b), A(n + 1), A(n)>>      \* a is held while b runs to completion

\* the inputs that fit one configuration (SameInstance is an equivalence; a configuration is named by its probe
\* shape): computed once per configuration instead of once per lattice point
Classes == [ep \in EPs |-> [p \in {ProbeOf(ep, s) : s \in Lattice[ep]} |-> {t \in Lattice[ep] : SameInstance(ep, t, p)}]]
Others(ep, s) == Classes[ep][ProbeOf(ep, s)] \ {s, ProbeOf(ep, s)}
Partner(ep, s) == IF Others(ep, s) = {} THEN s ELSE RandomElement(Others(ep, s))

Steps(tm, s, t, p) ==
    IF tm = "seq" THEN Single(1, s) \o Single(2, s) \o Single(3, p) \o Single(4, t)
    ELSE Pair(1, s, t) \o Pair(3, s, s) \o Pair(5, s, p) \o Single(7, p)

SInit == Init /\ plan = None

TNext ==
    /\ plan = None
    /\ \E ep \in EPs : \E s \in Lattice[ep] : \E tm \in Templates :
          plan' = [tmpl |-> tm, ep |-> ep, inst |-> ProbeOf(ep, s), of |-> s,
                   steps |-> Steps(tm, s, Partner(ep, s), ProbeOf(ep, s))]
    /\ UNCHANGED ivars

TSpec == SInit /\ [][TNext]_svars

(* random histories: a configuration, then blocks until MaxCalls calls are planned *)
Planned == IF plan = None THEN 0 ELSE Cardinality({i \in 1..Len(plan.steps) : plan.steps[i].op = "Call"})

RNext ==
    /\ UNCHANGED ivars
    /\ \/ /\ plan = None
          /\ \E ep \in EPs : \E s \in Lattice[ep] :
                plan' = [tmpl |-> "random", ep |-> ep, inst |-> ProbeOf(ep, s), of |-> s, steps |-> << >>]
       \/ /\ plan # None /\ Planned < MaxCalls
          /\ LET class == Classes[plan.ep][plan.inst]
                 a == RandomElement(class \cup {plan.inst, plan.of})
                 b == RandomElement(class \cup {plan.inst, plan.of})
             IN  \/ plan' = [plan EXCEPT !.steps = @ \o Single(Planned + 1, a)]
                 \/ Planned + 1 < MaxCalls /\ plan' = [plan EXCEPT !.steps = @ \o Pair(Planned + 1, a, b)]
                 \/ Planned + 1 < MaxCalls /\ plan' = [plan EXCEPT !.steps = @ \o Pair(Planned + 1, a, a)]

RSpec == SInit /\ [][RNext]_svars

EmitT == (plan # None) => PrintT(ToJson(plan))
EmitR == (plan # None /\ Planned >= MaxCalls - 1) => PrintT(ToJson(plan))
=============================================================================
