SPECIFICATION AMSpec
CONSTANTS
  RunIds = {1, 2}
  SlotsPerEpoch = 2
  Roots = {1}
  Strict01 = TRUE
  Strict04 = TRUE
  MCSlots = {0}
  MCVals = {1, 2}
  MCMaxLen = 2
  MCComms = {0, 1}
  MCAllComms = FALSE
  MCPre = FALSE
  MCLean = TRUE
  MCMaxAlive = 2
  AMKinds = {"dirk", "wallet"}
  AMDeviant = {}
  AMDeviation = "none"
  AllVals = {1, 2}
  FFE = 99
  MCExits = {}
CONSTRAINT AliveBound
INVARIANTS TypeOK AMTypeOK NoDoubleSign NoDoubleVote SignedDataSound RefusedMeansNoSign AssignmentExact SignAssignmentExact UnsignedYieldNothing SignOnlyClaimed ByIndexSubset ByIndexExact
PROPERTY AttestedMonotone
CHECK_DEADLOCK FALSE
