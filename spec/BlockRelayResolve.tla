------------------------- MODULE BlockRelayResolve -------------------------
(* Property C11, the RESOLUTION clause: relays and beacon nodes are told exactly what the           *)
(* configuration says for each validator - WHATEVER OTHER ENTRY POINT of the block relay resolved    *)
(* that validator before.                                                                           *)
(*                                                                                                  *)
(* BlockRelay.tla (registration part) draws its boundary around submitvalidatorregistrations.go,     *)
(* validatorregistrations.go and the preparer's loop and takes "what the configuration says for v"   *)
(* as an oracle (ExpFor / Resolve(active, v)): one value per validator.  The property's boundary is   *)
(* wider.  What a validator's settings ARE depends on the pair (public key, ACCOUNT): a version-2    *)
(* execution configuration selects a proposer entry by a regular expression over wallet/account,     *)
(* which can only match when the caller hands the account over.  And the long-lived block relay      *)
(* service resolves settings from SIX entry points, which main.go wires to different callers:        *)
(*                                                                                                  *)
(*   "round"    the registration job (generateValidatorRegistrationsForAccount): every account that  *)
(*              the account manager lists as validating in the next epoch, WITH the account; its     *)
(*              sibling implementation is the exported SubmitValidatorRegistrations(accounts) of     *)
(*              blockrelay.ValidatorRegistrationsSubmitter (RoundVias: "job" | "api")                *)
(*   "prep"     the proposal preparer (its ExecutionConfigProvider IS the block relay service):      *)
(*              the same listing, ProposerConfig(account, pubkey)                                    *)
(*   "fwd"      ValidatorRegistrations: a beacon node forwards a registration of a validator that    *)
(*              is not among the validators of the last round: ProposerConfig(nil, pubkey)           *)
(*   "unblind"  UnblindBlock / unblindersForProposal: ProposerConfig(nil, pubkey of the proposer)    *)
(*   "auction"  AuctionBlock: account looked up by public key in the account manager, then           *)
(*              ProposerConfig(account, pubkey); no account = no auction                             *)
(*   "bid"      BuilderBid without a cached bid (immediateBuilderBid): the account if the account    *)
(*              manager holds the key, otherwise nil                                                 *)
(*                                                                                                  *)
(* Here every one of them is an action Call(kind, v) on ONE instance whose sub-step is the resolution *)
(* Answer(v, a) with its argument (validator, a = account handed over or not).  The neighbours that   *)
(* decide the argument are components with state of their own:                                       *)
(*   force       the execution configuration in force (replaced by Fetch(d): the per-install          *)
(*               lifetime of anything the instance remembers about resolutions)                      *)
(*   st[v]       the account manager / validators manager: "foreign" (key not in Vouch's wallets),   *)
(*               "pending" (account held, validator not yet active), "active" (listed as validating  *)
(*               for the next epoch).  Routes by which a validator becomes active (constant Routes): *)
(*               "epoch"  (pending -> active: its activation epoch arrives) and                      *)
(*               "import" (foreign -> active: the account appears in the wallet, manager refreshed:  *)
(*               a validator moved to this Vouch)                                                    *)
(*   controlled  the validators of the last registration round (forwarded registrations of these      *)
(*               are dropped: ControlledDropped of BlockRelay.tla)                                   *)
(*   memo        what the DESIGN of the resolution keeps on the instance (constant Memo):            *)
(*               "none"            nothing: every call reads the configuration in force (the code)   *)
(*               "pubkey_account"  answers remembered per (validator, account handed over) until the *)
(*                                 next install - a permitted optimisation: every invariant holds    *)
(*               "pubkey"          answers remembered per validator until the next install - the     *)
(*                                 CONTROL MODEL TLC must reject: right for every call on a fresh     *)
(*                                 instance, right in every history in which only the round and the  *)
(*                                 preparer resolve, right for every document whose entries name     *)
(*                                 public keys (MC_.._memo_pubkey_old*.cfg pass) - and wrong as soon *)
(*                                 as a nil-account entry point resolves a validator first:          *)
(*                                 Fetch(1) Call(fwd, 1) Activate(1) Round                           *)
(*                                                                                                  *)
(* Written "record and judge" like BlockRelay.tla: an action records in `last` what the entry point   *)
(* let the outside see; the property clauses are invariants over that record; Do*-actions are the     *)
(* guarded actions of the design (what Memo makes of Answer), Rec*-actions take what was observed    *)
(* on the real code (Trace_BlockRelayResolve).                                                      *)
(*                                                                                                  *)
(*   RegistrationsFollowConfig  the registrations of a round: per validator exactly one per relay of  *)
(*                              Res(force, v, WITH account), each with the fee recipient and gas      *)
(*                              limit resolved for that relay, validly signed; a secondary beacon    *)
(*                              node only sees such contents                                         *)
(*   PreparationsFollowConfig   every node gets <<index, fee recipient of Res(force, v, WITH account)>> *)
(*   ForwardedFollowConfig      a forwarded registration of a validator not in `controlled` reaches   *)
(*                              every relay of Res(force, v, no account) unchanged; one of a          *)
(*                              controlled validator reaches nobody                                   *)
(* What the auction entry points hand to the bid strategy is recorded (it is C10's CallersAgree that   *)
(* judges it); which relays are asked to unblind is not part of any clause.  They are here because     *)
(* they RESOLVE: whatever they leave on the instance meets the next round.                            *)
EXTENDS Integers, FiniteSets, Sequences, TLC

CONSTANTS Vals,     \* validators (1, 2)
          Relays,   \* relays (1, 2)
          Nodes,    \* beacon nodes (preparation submitters = secondary registration submitters)
          DocIds,   \* documents of the catalogue the source may serve
          Kinds,    \* entry points that occur (subset of AllKinds): the sibling entry points are VALUES
          Routes,   \* ways to become active (subset of {"epoch", "import"})
          Memo      \* "none" | "pubkey_account" | "pubkey" (control model)

AllKinds == {"round", "prep", "fwd", "unblind", "auction", "bid"}
ASSUME Kinds \subseteq AllKinds /\ Routes \subseteq {"epoch", "import"}
ASSUME Memo \in {"none", "pubkey_account", "pubkey"}

-----------------------------------------------------------------------------
(* The catalogue.  Fee recipients and gas limits are tokens (0 = the fallback of the service).     *)
(* A document: top-level fee / gas / relays and a SEQUENCE of proposer entries; the first entry    *)
(* that matches applies (services/blockrelay/v2: setProposerSpecificOptions).  An entry is          *)
(* by "account" (a regular expression over wallet/account, rendered by the driver in several        *)
(* spellings; who = the validators whose account name it matches) or by "pubkey".  Unset = -1.      *)
(* Neither the base relays nor the entries carry relay-level overrides here (BlockRelay.tla's        *)
(* catalogue and C10 do that): every relay of a resolution has the same fee recipient and gas limit. *)
Unset == -1
Ent(by, who, fee, gas, reset, rel) == [by |-> by, who |-> who, fee |-> fee, gas |-> gas, reset |-> reset, rel |-> rel]
Doc(k) ==
    CASE k = 0 -> [fee |-> 0, gas |-> 0, rel |-> {}, ent |-> <<>>]       \* the empty version-2 configuration of New()
      \* the validator's VALUES come from its account entry, the relay from the top level
      [] k = 1 -> [fee |-> 1, gas |-> 1, rel |-> {1},
                   ent |-> <<Ent("account", {1}, 2, 2, FALSE, {})>>]
      \* the validator's RELAY comes from its account entry: without the account there is none
      [] k = 2 -> [fee |-> 1, gas |-> 1, rel |-> {},
                   ent |-> <<Ent("account", {1}, 2, 2, FALSE, {1})>>]
      \* an account entry that starts from scratch, next to a public-key entry for the other validator
      [] k = 3 -> [fee |-> 1, gas |-> 0, rel |-> {1, 2},
                   ent |-> <<Ent("account", {2}, Unset, 3, TRUE, {2}), Ent("pubkey", {1}, 3, Unset, FALSE, {})>>]
      \* public keys only (the alphabet the check had): the account makes no difference
      [] k = 4 -> [fee |-> 1, gas |-> 0, rel |-> {1},
                   ent |-> <<Ent("pubkey", {1}, 2, Unset, FALSE, {2}), Ent("pubkey", {2}, Unset, 2, FALSE, {})>>]
      \* an account entry shadows a public-key entry of the same validator (without the account the public-key
      \* entry applies: both differ from the default); one expression matches both validators' accounts after it
      [] k = 5 -> [fee |-> 0, gas |-> 1, rel |-> {},
                   ent |-> <<Ent("account", {2}, 2, Unset, FALSE, {2}), Ent("pubkey", {2}, 3, Unset, FALSE, {1}),
                             Ent("account", {1, 2}, Unset, 2, FALSE, {1})>>]

AllDocs == 0..5
ASSUME DocIds \subseteq AllDocs

Matches(e, v, a) == v \in e.who /\ (e.by = "account" => a)
FirstMatch(d, v, a) ==
    LET E == Doc(d).ent
        S == {i \in 1..Len(E) : Matches(E[i], v, a)}
    IN IF S = {} THEN 0 ELSE CHOOSE i \in S : \A j \in S : i <= j

\* the documented resolution of validator v under document d, with (a) or without the account
Res(d, v, a) ==
    LET D == Doc(d)
        i == FirstMatch(d, v, a)
    IN IF i = 0 THEN [fee |-> D.fee, regs |-> {<<r, D.fee, D.gas>> : r \in D.rel}]
       ELSE LET e == D.ent[i]
                f == IF e.fee = Unset THEN D.fee ELSE e.fee
                g == IF e.gas = Unset THEN D.gas ELSE e.gas
            IN [fee |-> f, regs |-> {<<r, f, g>> : r \in (IF e.reset THEN {} ELSE D.rel) \cup e.rel}]

RelaysOf(res) == {t[1] : t \in res.regs}
NoRes == [fee |-> Unset, regs |-> {}]

\* the catalogue tells "with the account" from "without" for some validator (otherwise the module says nothing)
AcctDocs == {d \in AllDocs : \E v \in {1, 2} : Res(d, v, TRUE) # Res(d, v, FALSE)}
ASSUME {1, 2, 3, 5} \subseteq AcctDocs /\ 4 \notin AcctDocs

-----------------------------------------------------------------------------
VARIABLES force,       \* document in force
          st,          \* per validator: "foreign" | "pending" | "active"
          controlled,  \* validators of the last registration round
          memo,        \* what the design keeps: [MemoKeys -> resolution or NoMemo]
          last         \* what the last step let the outside see (judged by the invariants)

vars == <<force, st, controlled, memo, last>>

NoMemo == [fee |-> -2, regs |-> {}]
MemoKeys == Vals \X BOOLEAN
NoLast == [k |-> "none"]

States == {"foreign", "pending", "active"}
Active == {v \in Vals : st[v] = "active"}
Held(v) == st[v] # "foreign"       \* the account manager answers AccountByPublicKey with the account

Init ==
    /\ force \in {0} \cup DocIds          \* New() fetches inline
    /\ st \in [Vals -> States]
    /\ controlled = {}                    \* (the round New() starts on its own is the first Round of a recorded history)
    /\ memo = [k \in MemoKeys |-> NoMemo]
    /\ last = NoLast

\* ---- the resolution with its argument (validator, account handed over or not) on the instance ----
KeyOf(v, a) == IF Memo = "pubkey" THEN <<v, TRUE>> ELSE <<v, a>>
Answer(v, a) ==
    IF Memo # "none" /\ memo[KeyOf(v, a)] # NoMemo THEN memo[KeyOf(v, a)] ELSE Res(force, v, a)
\* the resolutions S = {<<v, a>>} of one step leave their answers on the instance (distinct validators per step)
Remember(S) ==
    IF Memo = "none" THEN memo
    ELSE [k \in MemoKeys |-> IF memo[k] = NoMemo /\ \E x \in S : KeyOf(x[1], x[2]) = k
                             THEN LET x == CHOOSE x \in S : KeyOf(x[1], x[2]) = k IN Res(force, x[1], x[2])
                             ELSE memo[k]]

\* ---- environment: configuration source, account manager / validators manager ----
Fetch(d) ==
    /\ force' = d
    /\ memo' = [k \in MemoKeys |-> NoMemo]      \* per-install lifetime
    /\ last' = [k |-> "fetch", d |-> d]
    /\ UNCHANGED <<st, controlled>>

\* a fetch that fails (source error, malformed document): the configuration in force stays
FetchFails ==
    /\ last' = [k |-> "fetch", d |-> force]
    /\ UNCHANGED <<force, st, controlled, memo>>

\* the fetch job: fetchExecutionConfig lists the validating accounts first and does not ask the source while there
\* are none (so a document only ever arrives while some validator is active)
DoFetch(d) == IF Active # {} THEN Fetch(d) ELSE FetchFails

Activate(v, route) ==
    /\ route \in Routes
    /\ st[v] = (IF route = "epoch" THEN "pending" ELSE "foreign")
    /\ st' = [st EXCEPT ![v] = "active"]
    /\ last' = [k |-> "activate", v |-> v]
    /\ UNCHANGED <<force, controlled, memo>>

\* ---- the entry points: what they let the outside see is `told` ----
\* registration round: told = [v \in vs |-> registrations <<relay, fee, gas>> received by the relays], all validly
\* signed (sig), nodes = the <<v, fee, gas>> the secondary beacon nodes received
\* via: the job (which does nothing when no account is listed) or the exported method handed the listed accounts
RoundVias == {"job", "api"}
RecRound(via, vs, told, sig, nodes) ==
    /\ via \in RoundVias
    /\ vs = Active
    /\ last' = [k |-> "round", via |-> via, d |-> force, vs |-> vs, told |-> told, sig |-> sig, nodes |-> nodes]
    /\ controlled' = IF vs = {} /\ via = "job" THEN controlled ELSE vs
    /\ memo' = Remember({<<v, TRUE>> : v \in vs})
    /\ UNCHANGED <<force, st>>

DoRound(via) ==
    /\ "round" \in Kinds
    /\ LET told == [v \in Active |-> Answer(v, TRUE).regs] IN
       RecRound(via, Active, told, TRUE, UNION {{<<v, t[2], t[3]>> : t \in told[v]} : v \in Active})

\* preparation: told = the <<node, v, fee>> the nodes received
RecPrep(vs, told) ==
    /\ vs = Active
    /\ last' = [k |-> "prep", d |-> force, vs |-> vs, told |-> told]
    /\ memo' = Remember({<<v, TRUE>> : v \in vs})
    /\ UNCHANGED <<force, st, controlled>>

DoPrep ==
    /\ "prep" \in Kinds
    /\ RecPrep(Active, {<<n, v, Answer(v, TRUE).fee>> : n \in Nodes, v \in Active})

\* a forwarded registration of v with content <<fee, gas>> = c: told = the <<relay, fee, gas>> the relays received
RecFwd(v, c, told) ==
    /\ last' = [k |-> "fwd", d |-> force, v |-> v, c |-> c, dropped |-> v \in controlled, told |-> told]
    /\ memo' = IF v \in controlled THEN memo ELSE Remember({<<v, FALSE>>})
    /\ UNCHANGED <<force, st, controlled>>

FwdContent == <<9, 9>>
DoFwd(v) ==
    /\ "fwd" \in Kinds
    /\ RecFwd(v, FwdContent, IF v \in controlled THEN {}
                             ELSE {<<r, FwdContent[1], FwdContent[2]>> : r \in RelaysOf(Answer(v, FALSE))})

\* unblinding a block proposed by v / an auction / an immediate bid: not judged here, but they resolve
RecOther(kind, v, a, resolved) ==
    /\ last' = [k |-> kind, d |-> force, v |-> v, a |-> a, resolved |-> resolved]
    /\ memo' = IF resolved THEN Remember({<<v, a>>}) ELSE memo
    /\ UNCHANGED <<force, st, controlled>>

DoUnblind(v) == "unblind" \in Kinds /\ RecOther("unblind", v, FALSE, TRUE)
DoAuction(v) == "auction" \in Kinds /\ RecOther("auction", v, Held(v), Held(v))    \* no account = no auction
DoBid(v) == "bid" \in Kinds /\ RecOther("bid", v, Held(v), TRUE)

Next ==
    \/ \E d \in DocIds : DoFetch(d)
    \/ FetchFails
    \/ \E v \in Vals, route \in Routes : Activate(v, route)
    \/ (\E via \in RoundVias : DoRound(via)) \/ DoPrep
    \/ \E v \in Vals : DoFwd(v) \/ DoUnblind(v) \/ DoAuction(v) \/ DoBid(v)

Spec == Init /\ [][Next]_vars

-----------------------------------------------------------------------------
TypeOK ==
    /\ force \in AllDocs
    /\ st \in [Vals -> States]
    /\ controlled \subseteq Vals
    /\ DOMAIN memo = MemoKeys

\* exactly one registration per relay of the validator's settings WITH its account, with that relay's values;
\* validly signed; the secondary nodes see nothing else
RegistrationsFollowConfig ==
    last.k = "round" =>
        /\ DOMAIN last.told = last.vs
        /\ \A v \in last.vs : last.told[v] = Res(last.d, v, TRUE).regs
        /\ last.sig
        /\ last.nodes \subseteq UNION {{<<v, t[2], t[3]>> : t \in Res(last.d, v, TRUE).regs} : v \in last.vs}

PreparationsFollowConfig ==
    last.k = "prep" =>
        last.told = {<<n, v, Res(last.d, v, TRUE).fee>> : n \in Nodes, v \in last.vs}

ForwardedFollowConfig ==
    last.k = "fwd" =>
        last.told = IF last.dropped THEN {}
                    ELSE {<<r, last.c[1], last.c[2]>> : r \in RelaysOf(Res(last.d, last.v, FALSE))}

ToldWhatConfigSays == RegistrationsFollowConfig /\ PreparationsFollowConfig /\ ForwardedFollowConfig

\* the memo designs never hold anything of another document (the per-install lifetime)
MemoOfForce ==
    \A k \in MemoKeys : memo[k] # NoMemo => \E a \in BOOLEAN : memo[k] = Res(force, k[1], a)
=============================================================================
