\* the refresh control design with no head events: passes - why the former model could not see it
SPECIFICATION Spec
CONSTANTS
  SPE = 2
  EPP = 8
  Prep = 5
  MaxSlot = 34
  Validators = {1, 2, 3}
  StartCfgs = {5, 16, 23}
  AcctSets = {{1, 2, 3}}
  CommChoices = {{1, 2, 3}, {2}}
  ExitEpochs = {12}
  SlashEpochs = {10}
  WdDelay = 3
  Varying = {3}
  Roots = {1, 2}
  Steps = {}
  JumpTargets = {6, 16, 17, 22, 31, 32}
  HeadEpochs = {8, 16}
  MaxHeads = 0
  MaxEnv = 1
  MaxRefresh = 1
  MaxXTicks = 0
  MaxRan = 1
  Deviation = "RefreshValidating"
INVARIANTS TypeOK JobsComplete NowHasJob EveryMemberMessages OnlyMembers
CHECK_DEADLOCK FALSE
