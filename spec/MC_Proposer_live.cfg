SPECIFICATION LiveSpec
CONSTANTS
  DutySlots = {9}
  Validators = {2}
  SlotsPerEpoch = 4
  Relays = {1}
  AllChoices = {{}, {1}}
  Versions = {"altair", "deneb"}
  Blindable = {"deneb"}
  Outcomes = {"full", "err", "never"}
  Dslots <- AllDslots
  MaxCalls = 2
  NDuties = 2
  SlotGaps = {1}
  MaxOpen = 1
  MaxInFlight = 1
  InitCfgs <- AllCfgs
  LaterAllChoices = {{}, {1}}
  LaterVersions = {"deneb"}
  LaterOutcomes = {"full", "never"}
  LaterDslots = {0, 1}
INVARIANTS TypeOK CompletesDuty HistoryIndependent
PROPERTIES EveryDutyTerminates
CHECK_DEADLOCK TRUE
