SPECIFICATION MSpec
CONSTANTS
  EPs = {"builderbid", "execservice"}
  Designs = {"shared"}
  MaxCalls = 2
  MaxInFlight = 2
INVARIANTS TypeOK KeepsRunning EndsProperly HistoryIndependent BoundedOverlap MTotal

CHECK_DEADLOCK FALSE
