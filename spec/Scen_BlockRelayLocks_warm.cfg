SPECIFICATION SSpec
CONSTANTS
  Ops = {1, 2, 3, 4, 5}
  MaxInFlight = 3
  Kinds = {"fetch", "lookup", "auction", "bbid", "register", "vreg"}
  Keys = {1, 2}
  Install = "plain"
  BidImpl = "asis"
  Family = "warm"
  DocIds = {1, 2, 3}
  InitDocs = {0, 1, 3}
INVARIANTS Emit NoDeadlock ReturnsClean LockBalanced LockAccounting
CHECK_DEADLOCK FALSE
