---------------------------- MODULE Trace_Attester ----------------------------
(* Trace specification: a trace recorded from the real attester/standard.Service is a behaviour *)
(* of Attester.  One line per call on the service's interfaces (request and reply), written     *)
(* under the trace lock together with a snapshot of Service.attested, hence in linearisation    *)
(* order even when several Attest runs overlap.                                                 *)
(*   Deliver   Attest is about to be called with this duty           -> Deliver                 *)
(*   Fetch     AttestationData returned data / an error              -> Fetch / FetchErr        *)
(*             (a response without data / source / target: data = Attester!Incomplete)          *)
(*   Accounts  ValidatingAccountsForEpochByIndex(req) returned accts -> Accounts / AccountsErr  *)
(*   Sign      SignBeaconAttestations was called with (req, data)    -> SignCall                *)
(*   SignRet   ... returned (zero) / an error; req = the request as it reads at that moment     *)
(*                                                                   -> SignRet                 *)
(*   Submit    SubmitAttestations was called with atts               -> SubmitCall              *)
(*   SubmitRet ... returned ok / error; atts = the attestations as they read at that moment     *)
(*                                                                   -> SubmitRet               *)
(*   Hung      (watchdog) a run neither reached an interface nor returned: no action            *)
(*   Crash     Attest panicked (recovered by the harness): no action                            *)
(* What the service hands to the signer / submitter must stay what it was for the length of the *)
(* call (the callee reads it whenever it likes): the lines at return repeat the arguments.      *)
(*   Return    Attest returned                                       -> Housekeep               *)
(* Steps inside the service are not logged and are silent here: the iterations of the marking   *)
(* loop (MarkOne: which of two overlapping runs claims a validator is found by TLC and must     *)
(* agree with every later snapshot and request), Validate and Build.                            *)
EXTENDS Attester, TraceLib

VARIABLE l
tvars == <<vars, l>>

TraceInit == l = 1 /\ Init /\ InitHWM

IsEvent(e) == l <= TraceLen /\ Trace[l].ev = e /\ l' = l + 1
Line == Trace[l]

\* the snapshot of Service.attested binds the specification's variable (a C01 mechanism)
StateMatches == Strict01 => attested' = Range(Line.att)

TraceReset ==
    /\ IsEvent("Reset")
    /\ attested' = {} /\ run' = [r \in RunIds |-> IdleRun] /\ signReq' = {} /\ submitted' = {} /\ horizon' = 0

TraceDeliver ==
    /\ IsEvent("Deliver")
    /\ Deliver(Line.run, Line.duty)
    /\ StateMatches

TraceFetch ==
    /\ IsEvent("Fetch")
    /\ IF Line.err THEN FetchErr(Line.run) ELSE Fetch(Line.run, Line.data)
    /\ StateMatches

\* the request shows which validators the run claimed in the marking loop (as a set: naming a validator
\* twice to the account manager asks the signer for nothing)
TraceAccounts ==
    /\ IsEvent("Accounts")
    /\ Range(Line.req) = run[Line.run].claimed
    /\ IF Line.err THEN AccountsErr(Line.run) ELSE Accounts(Line.run, Range(Line.accts))
    /\ StateMatches

\* the request as the signer received it, position by position (account list beside committee list): a
\* validator named at two positions of ONE call has been asked for twice - NoDoubleSign judges it
TraceSign ==
    /\ IsEvent("Sign")
    /\ SignCallSeq(Line.run, Line.req, Line.data)
    /\ StateMatches

TraceSignRet ==
    /\ IsEvent("SignRet")
    /\ Strict04 => /\ Range(Line.req) = run[Line.run].req
                   /\ Line.data = run[Line.run].sd
    /\ SignRet(Line.run, Range(Line.zero), ~Line.err)
    /\ StateMatches

AttOf(j) == [index |-> j.index, size |-> j.size, bits |-> Range(j.bits), data |-> j.data, sig |-> j.sig]
AttsOf(line) == {AttOf(line.atts[i]) : i \in DOMAIN line.atts}

TraceSubmit ==
    /\ IsEvent("Submit")
    /\ run[Line.run].atts = AttsOf(Line)
    /\ Len(Line.atts) = Cardinality(AttsOf(Line))
    /\ SubmitCall(Line.run)
    /\ StateMatches

TraceSubmitRet ==
    /\ IsEvent("SubmitRet")
    /\ Strict04 => AttsOf(Line) = run[Line.run].atts
    /\ SubmitRet(Line.run, ~Line.err)
    /\ StateMatches

TraceReturn ==
    /\ IsEvent("Return")
    /\ IF Strict01
       THEN Range(Line.att) \subseteq attested /\ Housekeep(Line.run, attested \ Range(Line.att))
       ELSE Housekeep(Line.run, {})

\* next line of run r in the current scenario (0 if none)
RECURSIVE NextOf(_, _)
NextOf(k, r) == IF k > TraceLen THEN 0
                ELSE IF Trace[k].ev = "Reset" THEN 0
                ELSE IF Trace[k].run = r THEN k ELSE NextOf(k + 1, r)

\* unlogged steps of the service
Silent ==
    /\ l <= TraceLen
    /\ UNCHANGED l
    /\ \E r \in RunIds :
        \* without Strict01 nothing reads `attested`, so the unlogged steps of different runs commute: they
        \* are taken just before the run's own next line (one order instead of all)
        /\ Strict01 \/ (Trace[l].ev # "Reset" /\ Trace[l].run = r)
        /\ \/ \E claim \in BOOLEAN : MarkOne(r, claim)
           \/ \E pass \in BOOLEAN : Validate(r, pass)
           \/ /\ run[r].pc = "build"
              /\ LET k == NextOf(l, r) IN
                   /\ k > 0
                   /\ Build(r, IF Trace[k].ev = "Submit" THEN AttsOf(Trace[k]) ELSE {})

TraceNext == TraceReset \/ TraceDeliver \/ TraceFetch \/ TraceAccounts \/ TraceSign \/ TraceSignRet \/ TraceSubmit \/ TraceSubmitRet \/ TraceReturn \/ Silent

TraceSpec == TraceInit /\ [][TraceNext]_tvars

\* a Reset line starts a new scenario (a new service instance): it is not a step of the attester
TraceAttestedMonotone == [][(l <= TraceLen /\ Trace[l].ev = "Reset") \/ AttestedMonotoneStep]_tvars

HWM == UpdateHWM(l)
TraceAccepted == TraceAcceptedUpTo
=============================================================================
