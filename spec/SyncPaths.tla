------------------------------ MODULE SyncPaths ------------------------------
(* C15, fifth round: WHO is in the sync committee duty of a slot, whichever entry point of the   *)
(* controller set the slot's job up.                                                              *)
(*                                                                                                *)
(* SyncCommittee.tla models one scheduleSyncCommitteeMessages call on a frozen duty and what the  *)
(* jobs of a slot do.  This module draws the boundary where the property draws it: from the       *)
(* validators of the beacon chain (their life: active, exiting, slashed, exited, withdrawable),   *)
(* the accounts of the wallet and the sync committee of every period to the messages of a slot.   *)
(* Every component on that path as main.go wires it is an action with its own state:              *)
(*   beacon node          life (the chain's validator records), comm (committee per period)       *)
(*   validators manager   known (its copy of the records, replaced by a refresh)                  *)
(*   account manager      acct; the two account sets it hands out for an epoch: the VALIDATING    *)
(*                        set (active_ongoing, active_exiting) and the SYNC-COMMITTEE-ELIGIBLE    *)
(*                        set (also active_slashed, exited_*, withdrawal_possible), and the       *)
(*                        ByIndex variant used inside scheduleSyncCommitteeMessages               *)
(*   scheduler            jobs: at most one job per name (slot); a second ScheduleJob for the     *)
(*                        name is refused (ErrJobAlreadyExists), so the first duty sticks         *)
(*   controller           the FOUR sibling entry points that set up sync committee jobs:          *)
(*                        start  New()                       this period (+ next if <= Prep away) *)
(*                        ticker epochTicker                 next period, Prep epochs ahead       *)
(*                        fork   handleAltairForkEpoch       fork period (+ next if <= Prep away) *)
(*                        refresh refreshSyncCommitteeDutiesForEpochPeriod (head event with a     *)
(*                               changed current duty dependent root in the first epoch of a      *)
(*                               period): cancel the next period's jobs, set them up again        *)
(* The set a path hands to scheduleSyncCommitteeMessages is a parameter (SetOf(path)); the        *)
(* specification is the design in which every path uses the eligible set, and every invariant     *)
(* holds for each path.  Deviation names the control designs TLC must reject.                     *)
EXTENDS Integers, FiniteSets, TLC

CONSTANTS
    SPE, EPP, Prep,      \* SLOTS_PER_EPOCH, EPOCHS_PER_SYNC_COMMITTEE_PERIOD, syncCommitteePreparationEpochs
    MaxSlot,
    Validators,
    StartCfgs,           \* set of fork epoch * 1000 + start slot
    AcctSets,            \* the wallet's accounts: one of these sets
    CommChoices,         \* the committee of a period (our validators in it): one of these sets
    ExitEpochs,          \* a validator that leaves has one of these exit epochs ...
    SlashEpochs,         \* ... a slashed one one of these
    WdDelay,             \* withdrawable WdDelay epochs after the exit
    Varying,             \* validators whose life may be other than "active for ever"
    Roots,               \* current duty dependent roots of head events
    Steps, JumpTargets,  \* the clock moves by one of Steps or to one of JumpTargets
    HeadEpochs,          \* epochs in which head events arrive
    MaxHeads, MaxEnv, MaxRefresh, MaxXTicks, MaxRan,
    Deviation            \* "none" or the name of a control design

VARIABLES
    now, fork, start, up,
    life,                \* the chain: validator -> [exit, wd, slashed]
    known,               \* the validators manager's copy
    acct, comm,
    jobs,                \* slot -> [mem, acc, by, nv, st]: the prepare job of the slot and the duty it carries
    ran, msgs,           \* slots whose jobs ran; <<slot, validator>> messages
    lastEp, curRoot,     \* the controller's memory of the last head event
    ticked,              \* last epoch the epoch ticker ran for
    cnt                  \* budgets: [heads, env, refresh, xticks]

vars == <<now, fork, start, up, life, known, acct, comm, jobs, ran, msgs, lastEp, curRoot, ticked, cnt>>

FFE == 99
Paths == {"start", "ticker", "fork", "refresh"}
Max(a, b) == IF a > b THEN a ELSE b
Min(a, b) == IF a < b THEN a ELSE b
Periods == 0 .. ((MaxSlot \div SPE) \div EPP + 2)
NoJobs == [s \in {} |-> 0]

Ongoing == [exit |-> FFE, wd |-> FFE, slashed |-> FALSE]
ExitAt(x) == [exit |-> x, wd |-> x + WdDelay, slashed |-> FALSE]
SlashedAt(x) == [exit |-> x, wd |-> x + WdDelay, slashed |-> TRUE]
LifeSpace == {Ongoing} \cup {ExitAt(x) : x \in ExitEpochs} \cup {SlashedAt(x) : x \in SlashEpochs}

\* the state of a validator at an epoch as go-eth2-client's ValidatorToState derives it from the record
\* (all validators here were activated long ago and have a balance)
StateAt(r, e) ==
    IF e < r.exit THEN (IF r.slashed THEN "active_slashed" ELSE IF r.exit = FFE THEN "active_ongoing" ELSE "active_exiting")
    ELSE IF e < r.wd THEN (IF r.slashed THEN "exited_slashed" ELSE "exited_unslashed")
    ELSE "withdrawal_possible"
ValidatingStates == {"active_ongoing", "active_exiting"}
EligibleStates == ValidatingStates \cup {"active_slashed", "exited_unslashed", "exited_slashed", "withdrawal_possible"}
StatesOf(kind) == IF kind = "validating" THEN ValidatingStates ELSE EligibleStates

\* which account set a path asks the account manager for (the parameter the sibling paths differ in)
SetOf(path) ==
    IF \/ Deviation = "StartValidating" /\ path = "start"
       \/ Deviation = "TickerValidating" /\ path = "ticker"
       \/ Deviation = "ForkValidating" /\ path = "fork"
       \/ Deviation = "RefreshValidating" /\ path = "refresh"
    THEN "validating" ELSE "eligible"
\* ... and which filter the ByIndex lookup inside scheduleSyncCommitteeMessages applies
ByIndexKind == IF Deviation = "ByIndexValidating" THEN "validating" ELSE "eligible"

CurEp == now \div SPE
FirstEp(p) == Max(p * EPP, fork)
\* the period whose committee signs in slot s (the message of slot s is included in slot s + 1)
PeriodOfSlot(s) == ((s + 1) \div SPE) \div EPP

\* XxxAccountsForEpoch(e) of the account manager over the records K
Indices(K, path, e) == {v \in acct : StateAt(K[v], e) \in StatesOf(SetOf(path))}

\* scheduleSyncCommitteeMessages(epoch e, indices S, notCurrentSlot nc) on the job table J
Sched(J, K, path, e, S, nc) ==
    IF S = {} \/ CurEp < fork THEN J
    ELSE LET p == e \div EPP
             fe == Max(FirstEp(p), CurEp)
             f0 == fe * SPE
             first == Max(IF f0 > 0 THEN f0 - 1 ELSE 0, now)
             last == FirstEp(p + 1) * SPE - 2
             W == {s \in first .. last : ~(nc /\ s = now)}
             D == S \cap comm[fe \div EPP]                  \* SyncCommitteeDuties(fe, S)
             A == {v \in D \cap acct : StateAt(K[v], fe) \in StatesOf(ByIndexKind)}
         IN IF D = {} THEN J
            ELSE [s \in DOMAIN J \cup W |-> IF s \in DOMAIN J THEN J[s]
                                              ELSE [mem |-> D, acc |-> A, by |-> path,
                                                    \* (for the scenario classes only) members outside the validating set then
                                                    nv |-> {v \in A : StateAt(K[v], fe) \notin ValidatingStates},
                                                    st |-> {StateAt(K[v], fe) : v \in A}]]

Remove(J, C) == [s \in DOMAIN J \ C |-> J[s]]

---------------------------------------------------------------------------------------------------
Init ==
    /\ \E c \in StartCfgs : fork = c \div 1000 /\ start = c % 1000 /\ now = c % 1000
    /\ up = FALSE
    /\ life \in [Validators -> LifeSpace]
    /\ \A v \in Validators \ Varying : life[v] = Ongoing
    /\ known = life
    /\ acct \in AcctSets
    /\ \E A, B \in CommChoices : comm = [p \in Periods |-> IF p % 2 = 0 THEN A ELSE B]
    /\ jobs = NoJobs /\ ran = {} /\ msgs = {}
    /\ lastEp = 0 /\ curRoot = 0 /\ ticked = -1
    /\ cnt = [heads |-> 0, env |-> 0, refresh |-> 0, xticks |-> 0]

\* New(): the account manager has just been built (its constructor refreshes), then the start-up scheduling
Start ==
    /\ ~up /\ up' = TRUE
    /\ known' = life
    /\ LET p == CurEp \div EPP
           nextStart == FirstEp(p + 1)
           J1 == Sched(jobs, life, "start", FirstEp(p), Indices(life, "start", CurEp), TRUE)
       IN jobs' = IF nextStart - CurEp <= Prep
                  THEN Sched(J1, life, "start", nextStart, Indices(life, "start", CurEp + 1), TRUE)
                  ELSE J1
    /\ UNCHANGED <<now, fork, start, life, acct, comm, ran, msgs, lastEp, curRoot, ticked, cnt>>

DueEpoch(e) == e = fork \/ e % EPP = EPP - Prep
TickPossible == up /\ now % SPE = 0 /\ now > start /\ ticked < CurEp
TickPending == TickPossible /\ DueEpoch(CurEp)

ForkPath(J) ==
    LET a == Sched(J, known, "fork", fork, Indices(known, "fork", fork), FALSE)
        nextP == ((fork \div EPP) + 1) * EPP
    IN IF nextP - fork <= Prep THEN Sched(a, known, "fork", nextP, Indices(known, "fork", nextP), FALSE) ELSE a
TickerPath(J) == Sched(J, known, "ticker", CurEp + Prep, Indices(known, "ticker", CurEp), FALSE)

\* the epoch ticker; its fork handler and its period preparation are goroutines (either order)
Tick ==
    /\ TickPossible
    /\ DueEpoch(CurEp) \/ cnt.xticks < MaxXTicks
    /\ ticked' = CurEp
    /\ cnt' = IF DueEpoch(CurEp) THEN cnt ELSE [cnt EXCEPT !.xticks = @ + 1]
    /\ LET f == CurEp = fork
           t == CurEp % EPP = EPP - Prep
       IN \/ jobs' = (IF t THEN TickerPath(IF f THEN ForkPath(jobs) ELSE jobs) ELSE IF f THEN ForkPath(jobs) ELSE jobs)
          \/ f /\ t /\ jobs' = ForkPath(TickerPath(jobs))
    /\ UNCHANGED <<now, fork, start, up, life, known, acct, comm, ran, msgs, lastEp, curRoot>>

\* refreshSyncCommitteeDutiesForEpochPeriod(e2)
RefreshPath(e2) ==
    LET p == e2 \div EPP
        fe == FirstEp(p)
        C == (fe * SPE - 1) .. (FirstEp(p + 1) * SPE - 2)
        J0 == Remove(jobs, C)
        S == Indices(known, "refresh", fe)
    IN IF S = {} THEN J0 ELSE Sched(J0, known, "refresh", e2, S, FALSE)

\* a head event for the current slot with current duty dependent root r
Head(r) ==
    /\ up /\ cnt.heads < MaxHeads
    /\ cnt' = [cnt EXCEPT !.heads = @ + 1]
    /\ lastEp' = CurEp /\ curRoot' = r
    /\ jobs' = IF lastEp # 0 /\ CurEp = lastEp /\ curRoot # 0 /\ curRoot # r /\ CurEp % EPP = 0
               THEN RefreshPath(CurEp + EPP) ELSE jobs
    /\ UNCHANGED <<now, fork, start, up, life, known, acct, comm, ran, msgs, ticked>>

\* the jobs of the current slot run (prepare, message, aggregation); every account signs
RunSlot ==
    /\ up /\ now \in DOMAIN jobs
    /\ msgs' = msgs \cup {<<now, v>> : v \in jobs[now].acc}
    /\ ran' = ran \cup {now}
    /\ jobs' = Remove(jobs, {now})
    /\ UNCHANGED <<now, fork, start, up, life, known, acct, comm, lastEp, curRoot, ticked, cnt>>

NextDueSlot == LET D == {e \in (CurEp + 1) .. (CurEp + EPP + 1) : DueEpoch(e)} IN
                 (CHOOSE e \in D : \A x \in D : e <= x) * SPE

\* the clock moves (jobs of slots that are passed over do not run: the driver's clock is moved by hand)
Advance(to) ==
    /\ up /\ ~TickPending
    /\ to > now /\ to <= MaxSlot /\ to <= NextDueSlot
    /\ now' = to
    /\ UNCHANGED <<fork, start, up, life, known, acct, comm, jobs, ran, msgs, lastEp, curRoot, ticked, cnt>>

\* the chain: a voluntary exit is processed / a validator is slashed
ExitV(v, x) ==
    /\ up /\ cnt.env < MaxEnv /\ life[v] = Ongoing /\ x > CurEp
    /\ life' = [life EXCEPT ![v] = ExitAt(x)]
    /\ cnt' = [cnt EXCEPT !.env = @ + 1]
    /\ UNCHANGED <<now, fork, start, up, known, acct, comm, jobs, ran, msgs, lastEp, curRoot, ticked>>
SlashV(v) ==
    /\ up /\ cnt.env < MaxEnv /\ ~life[v].slashed /\ CurEp + 2 <= life[v].exit
    /\ life' = [life EXCEPT ![v] = SlashedAt(CurEp + 2)]
    /\ cnt' = [cnt EXCEPT !.env = @ + 1]
    /\ UNCHANGED <<now, fork, start, up, known, acct, comm, jobs, ran, msgs, lastEp, curRoot, ticked>>

\* the accounts refresher job: the validators manager fetches the records again
RefreshAccounts ==
    /\ up /\ cnt.refresh < MaxRefresh /\ known # life
    /\ known' = life
    /\ cnt' = [cnt EXCEPT !.refresh = @ + 1]
    /\ UNCHANGED <<now, fork, start, up, life, acct, comm, jobs, ran, msgs, lastEp, curRoot, ticked>>

Next ==
    \/ Start \/ Tick \/ RefreshAccounts
    \/ Cardinality(ran) < MaxRan /\ RunSlot
    \/ CurEp \in HeadEpochs /\ \E r \in Roots : Head(r)
    \/ \E to \in {now + d : d \in Steps} \cup JumpTargets : Advance(to)
    \/ \E v \in Varying : SlashV(v) \/ \E x \in ExitEpochs : ExitV(v, x)

Spec == Init /\ [][Next]_vars

---------------------------------------------------------------------------------------------------
TypeOK ==
    /\ now \in 0 .. MaxSlot /\ up \in BOOLEAN
    /\ \A v \in Validators : life[v].exit <= life[v].wd /\ known[v].exit <= known[v].wd
    /\ acct \subseteq Validators
    /\ \A s \in DOMAIN jobs : jobs[s].acc \subseteq jobs[s].mem /\ jobs[s].mem \subseteq Validators /\ jobs[s].by \in Paths
    /\ ran \subseteq 0 .. MaxSlot

\* the members of the committee that signs in slot s whose account the wallet has
Req(s) == comm[PeriodOfSlot(s)] \cap acct
\* slots the property speaks about: after the start ("from now, if later"; New() leaves the current slot out),
\* not before the fork
ReqSlot(s) == s > start /\ s >= fork * SPE

\* WHICHEVER path set a slot's job up, the duty it carries has every committee member with an account
JobsComplete == \A s \in DOMAIN jobs : Req(s) \subseteq jobs[s].acc

\* every slot of the property has its job when the clock reaches it (some path has set it up in time)
NowHasJob == (up /\ ReqSlot(now) /\ Req(now) # {} /\ ~TickPending) => now \in DOMAIN jobs \cup ran

\* the property, end to end: in a slot whose jobs ran every committee member with an account has its message,
\* and nobody else
EveryMemberMessages == \A s \in ran : \A v \in Req(s) : <<s, v>> \in msgs
OnlyMembers == \A m \in msgs : m[2] \in comm[PeriodOfSlot(m[1])] \cap acct
=============================================================================
