SPECIFICATION TraceSpec
CONSTANTS
  Ops = {1, 2, 3, 4, 5, 6, 7, 8}
  MaxInFlight = 8
  Kinds = {"fetch", "lookup", "auction", "bbid", "register", "vreg"}
  Keys = {1, 2, 3}
  Install = "plain"
  BidImpl = "asis"
INVARIANTS TypeOKL NoDeadlock ReturnsClean LockBalanced LockAccounting
CONSTRAINT HWM
POSTCONDITION TraceAccepted
CHECK_DEADLOCK FALSE
