SPECIFICATION Spec
CONSTANTS
  Groups = {"syncduty"}
  Pinned = FALSE
  InPlace = FALSE
  Reuse = FALSE
  WideEnv = TRUE
  Share = "period"
  AliasWrite = "none"
  MaxPar = 3
INVARIANTS TypeOK Linearizable Disciplined SharedImmutable
CONSTRAINT AliasProbe
CHECK_DEADLOCK FALSE
