SPECIFICATION TraceSpec
CONSTANTS
  Calls = {1, 2, 3, 4, 5, 6, 7, 8, 9, 10, 11, 12, 13, 14, 15, 16, 17, 18, 19, 20, 21, 22, 23, 24, 25, 26, 27, 28, 29, 30, 31, 32, 33, 34, 35, 36, 37, 38, 39, 40, 41, 42, 43, 44, 45, 46, 47, 48, 49, 50, 51, 52, 53, 54, 55, 56, 57, 58, 59, 60, 61, 62, 63, 64, 65, 66, 67, 68, 69, 70, 71, 72}
  DocIds = {1, 2, 3, 4, 5, 6}
  FailKinds = {"error", "malformed"}
  MaxFetches = 99
  MaxOpen = 4
  Overlap = TRUE
  Kinds = {"direct", "prep", "reg", "auction", "bid", "check"}
  Ours = {"V1", "V2"}
  LookErrs = {"error"}
  MaxRefresh = 99
  AuctionMiss = "fail"
  BidAccount = "lookup"
  Design = "resolve"
INVARIANTS TypeOK UsesInForce SequentialRight CallersAgree MissOnly
CONSTRAINT HWM
POSTCONDITION TraceAccepted
CHECK_DEADLOCK FALSE
