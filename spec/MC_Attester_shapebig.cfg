SPECIFICATION Spec
CONSTANTS
  RunIds = {1, 2}
  SlotsPerEpoch = 2
  Roots = {1}
  Strict01 = TRUE
  Strict04 = TRUE
  MCSlots = {0}
  MCVals = {1, 2}
  MCMaxLen = 3
  MCComms = {0, 1}
  MCAllComms = TRUE
  MCPre = TRUE
  MCLean = TRUE
  MCMaxAlive = 1
  MCValSeqs <- MCValSeqsAll
CONSTRAINT AliveBound
INVARIANTS TypeOK NoDoubleSign NoDoubleVote SignedDataSound RefusedMeansNoSign AssignmentExact SignAssignmentExact UnsignedYieldNothing
PROPERTY AttestedMonotone
CHECK_DEADLOCK FALSE
