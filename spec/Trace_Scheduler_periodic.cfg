SPECIFICATION TraceSpec
CONSTANTS
  Callers = {"c1", "c2", "c3"}
  Cancellers = {"k1", "k2"}
  Periodic = TRUE
  DeleteByName = FALSE
  ClaimIgnoresCancel = FALSE
  DropOnClaim = FALSE
  MaxRuns = 1000
INVARIANTS AtMostOnce NoOverlap NoPanic NoLostRun NotDropped CancelBranchNoRun NameReusable NameSlotUnique SuccessorReachable
CONSTRAINT HWM
POSTCONDITION TraceAccepted
CHECK_DEADLOCK FALSE
