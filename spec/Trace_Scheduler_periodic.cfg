SPECIFICATION TraceSpec
CONSTANTS
  Callers = {"c1", "c2", "c3", "i1", "i2"}
  Cancellers = {"k1", "k2", "j1", "p1"}
  Periodic = TRUE
  DeleteByName = FALSE
  ClaimIgnoresCancel = FALSE
  PrefixCancellers = {"p1"}
  BlockingSend = FALSE
  DropOnClaim = FALSE
  MaxRuns = 1000
INVARIANTS AtMostOnce NoOverlap NoPanic NoLostRun NotDropped CancelBranchNoRun NameReusable NameSlotUnique SuccessorReachable
CONSTRAINT HWM
POSTCONDITION TraceAccepted
CHECK_DEADLOCK FALSE
