SPECIFICATION Spec
CONSTANTS
  Calls = {1, 2}
  DocIds = {2}
  FailKinds = {"error"}
  MaxFetches = 1
  MaxOpen = 2
  Overlap = TRUE
  Kinds = {"direct", "reg", "auction", "bid", "check"}
  Ours = {"V1"}
  LookErrs = {"error"}
  MaxRefresh = 1
  AuctionMiss = "fail"
  BidAccount = "lookup"
  Design = "resolve"
INVARIANTS TypeOK UsesInForce SequentialRight CallersAgree MissOnly
CONSTRAINT FetchBound
CHECK_DEADLOCK FALSE
