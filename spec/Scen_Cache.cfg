SPECIFICATION SSpec
CONSTANTS
  Roots = {1, 2, 3, 4}
  Slots = {0, 31, 32, 63, 64, 100, 2047, 2048, 2080, 4200}
  Nows = {0, 64, 2079, 2080, 2111, 2112, 2143, 2144, 4160, 6300}
  SlotsPerEpoch = 32
  NoRoot = 0
  HasPayload = {1, 2, 3}
  Deviation = "none"
  UseNodes = 3
  Retention = 64
  ScenLen = 12
INVARIANTS ExecHeadSound Emit MapSound LookupRight
CHECK_DEADLOCK FALSE
