SPECIFICATION PSpec
CONSTANTS
  Designs = {"checked", "firstraw"}
  Styles = {"best", "deadline"}
  Scripts = "diagonal"
INVARIANTS PTypeOK KeepsRunning CallerSeesNoPanic
CHECK_DEADLOCK FALSE
