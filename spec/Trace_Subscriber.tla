--------------------------- MODULE Trace_Subscriber ---------------------------
(* Trace specification for C14: a trace recorded from the real beacon committee subscriber,     *)
(* attestation aggregator (AggregatorsAndSignatures) and controller (subscribeToBeaconCommittees*)
(* and AttestAndScheduleAggregate) is a behaviour of Subscriber.                                *)
(*   Duty       the scripted duty oracle gains a duty; h is computed by the driver from the     *)
(*              signature its scripted signer will hand out for (validator, slot)               *)
(*   Subscribe  info = the controller's stored subscription info for the epoch after the call,  *)
(*              subs = what the recording submitter received (after the submit goroutine ended) *)
(*   Attest     jobs = the aggregation jobs found in the fake scheduler after the call, each    *)
(*              with the validator of the Aggregate duty it carries, whether that duty carries  *)
(*              the validator's slot signature and the attestation data root, and whether the   *)
(*              job time lies within the slot                                                   *)
EXTENDS Subscriber, TraceLib

VARIABLE l
tvars == <<vars, l>>

TraceInit ==
    /\ l = 1
    /\ now = 0
    /\ target = 1
    /\ duties = {}
    /\ started = FALSE
    /\ info = {}
    /\ submitted = {}
    /\ subAt = NoSub
    /\ nsub = 0
    /\ jobs = {}
    /\ attests = {}
    /\ done = {}
    /\ InitHWM

IsEvent(e) == l <= TraceLen /\ Trace[l].ev = e /\ l' = l + 1

TraceReset ==
    /\ IsEvent("Reset")
    /\ now' = Trace[l].now
    /\ target' = Trace[l].target
    /\ duties' = {}
    /\ started' = FALSE
    /\ info' = {}
    /\ submitted' = {}
    /\ subAt' = NoSub
    /\ nsub' = 0
    /\ jobs' = {}
    /\ attests' = {}
    /\ done' = {}

TraceDuty ==
    /\ IsEvent("Duty")
    /\ LET t == Trace[l] IN
         AddDuty([v |-> t.v, slot |-> t.slot, committee |-> t.committee, size |-> t.size, h |-> t.h])

TraceAdvance ==
    /\ IsEvent("Advance")
    /\ now' = Trace[l].now
    /\ UNCHANGED <<target, duties, started, info, submitted, subAt, nsub, jobs, attests, done>>

TraceSubscribe ==
    /\ IsEvent("Subscribe")
    /\ SubscribeWith(SeqToSet(Trace[l].info), SeqToSet(Trace[l].subs))

LoggedJobs(js) == {[slot |-> j.slot, committee |-> j.committee, v |-> j.v, at |-> j.at] : j \in js}

TraceAttest ==
    /\ IsEvent("Attest")
    /\ LET t == Trace[l]
           js == SeqToSet(t.jobs) IN
         /\ AttestJob(t.slot, SeqToSet(t.committees), t.ok)
         /\ jobs' = jobs \cup LoggedJobs(js)
         /\ \A j \in js : j.sigok /\ j.rootok /\ j.inslot

TraceNext == TraceReset \/ TraceDuty \/ TraceAdvance \/ TraceSubscribe \/ TraceAttest

TraceSpec == TraceInit /\ [][TraceNext]_tvars

\* every modulus that occurs divides HMod (otherwise the reduced h would not determine the rule)
TraceTypeOK == \A d \in duties : d.h \in 0..(HMod - 1) /\ HMod % Modulus(d.size, target) = 0

HWM == UpdateHWM(l)
TraceAccepted == TraceAcceptedUpTo
=============================================================================
