--------------------------- MODULE Trace_Subscriber ---------------------------
(* Trace specification for C14: a trace recorded from the real beacon committee subscriber,     *)
(* attestation aggregator (AggregatorsAndSignatures) and controller (HandleHeadEvent ->         *)
(* refreshAttesterDutiesForEpoch, subscribeToBeaconCommittees, AttestAndScheduleAggregate) is a *)
(* behaviour of Subscriber.                                                                     *)
(*   Duty       the scripted duty oracle gains (op "add") or loses (op "drop") a duty, or a     *)
(*              re-org leaves the validator its slot but changes committee index / length (op   *)
(*              "move"; ocommittee, osize = what the oracle had), or a committee gets another   *)
(*              length (op "resize"); h is computed by the driver from the signature its        *)
(*              scripted signer hands out for (validator, slot)                                 *)
(*   Subscribe  a synchronous subscribeToBeaconCommittees; ok = the scripted beacon node        *)
(*              answered; info = the controller's stored subscription info for the epoch after  *)
(*              the call, subs = what the recording submitter received (after the submit        *)
(*              goroutine ended); sfail = the slots whose SignSlotSelections call the scripted  *)
(*              signer refused during this call                                                 *)
(*   Head       HandleHeadEvent returned and everything it started has ended or is held at the  *)
(*              gate of the scripted beacon node; reorg = the event carried a changed duty      *)
(*              dependent root that concerns the epoch; resub = re-subscriptions newly held at  *)
(*              the gate; info = the stored info                                                *)
(*   Resub      a held re-subscription was let go (ok: the node answers; ~ok: the node fails)   *)
(*              and has ended; info = the stored info afterwards, subs as for Subscribe         *)
(*   Fetch      a held re-subscription was let go at the beacon node (it fetched the duties as  *)
(*              they are now) and is held again INSIDE the real attestation aggregator: its     *)
(*              SignSlotSelections call for slot hs is parked in the scripted signer (id = the  *)
(*              number of the parked call).  A re-subscription that never reached the signer    *)
(*              for that slot ran to its end and is logged as Resub.                            *)
(*   Finish     the parked call id was answered and its subscription has ended; info / subs as  *)
(*              for Resub.  ONE real subscriber, aggregator and controller for the whole        *)
(*              history: whatever ran between Fetch and Finish ran on the same instances.       *)
(*   Attest     jobs = the aggregation jobs found in the fake scheduler after the call, each    *)
(*              with the validator of the Aggregate duty it carries, whether that duty carries  *)
(*              the validator's slot signature and the attestation data root, and whether the   *)
(*              job time lies within the slot                                                   *)
(* Where the specification says the store keeps what it has (Head, failed Subscribe / Resub) the*)
(* logged store is compared with the specification's on the part an attestation job can still   *)
(* read with effect: the aggregating entries of slots that are not past and whose attestation   *)
(* job has not run (an implementation may tidy up anything else).                               *)
EXTENDS Subscriber, TraceLib

VARIABLE l
tvars == <<vars, l>>

TraceInit ==
    /\ l = 1
    /\ now = 0
    /\ target = 1
    /\ geo = [spe |-> 1, ep |-> 0]
    /\ duties = {}
    /\ started = FALSE
    /\ info = {}
    /\ infoD = {}
    /\ submitted = {}
    /\ subAt = NoSub
    /\ nsub = 0
    /\ inflight = 0
    /\ held = {}
    /\ nheld = 0
    /\ nref = 0
    /\ nchg = 0
    /\ jobs = {}
    /\ attests = {}
    /\ done = {}
    /\ InitHWM

IsEvent(e) == l <= TraceLen /\ Trace[l].ev = e /\ l' = l + 1

TraceReset ==
    /\ IsEvent("Reset")
    /\ now' = Trace[l].now
    /\ target' = Trace[l].target
    /\ geo' = [spe |-> Trace[l].spe, ep |-> Trace[l].epoch]
    /\ duties' = {}
    /\ started' = FALSE
    /\ info' = {}
    /\ infoD' = {}
    /\ submitted' = {}
    /\ subAt' = NoSub
    /\ nsub' = 0
    /\ inflight' = 0
    /\ held' = {}
    /\ nheld' = 0
    /\ nref' = 0
    /\ nchg' = 0
    /\ jobs' = {}
    /\ attests' = {}
    /\ done' = {}

TraceDuty ==
    /\ IsEvent("Duty")
    /\ LET t == Trace[l]
           d == [v |-> t.v, slot |-> t.slot, committee |-> t.committee, size |-> t.size, h |-> t.h] IN
         CASE t.op = "drop"   -> DropDuty(d)
           [] t.op = "move"   -> MoveDuty([d EXCEPT !.committee = t.ocommittee, !.size = t.osize], d)
           [] t.op = "resize" -> ResizePair(t.slot, t.committee, t.size)
           [] OTHER           -> AddDuty(d)

TraceAdvance ==
    /\ IsEvent("Advance")
    /\ now' = Trace[l].now
    /\ UNCHANGED <<target, geo, duties, started, info, infoD, submitted, subAt, nsub, inflight, held, nheld, nref, nchg, jobs, attests, done>>

\* A logged info entry is [slot, committee, v, agg, sv]: sv names the validator whose slot signature the
\* entry holds as selection proof (0: nobody's), identified by the driver against slot signatures it obtained
\* independently of the code under test (wired family: from the validators' own keys).
InfoOf(logged) == {[slot |-> e.slot, committee |-> e.committee, v |-> e.v, agg |-> e.agg] : e \in SeqToSet(logged)}
\* the signer's batch contract seen from the store (ProofsOwn of SubscriberSigner): the selection proof kept
\* for a validator - the slot signature its aggregation job will carry - is that validator's own
OwnProofs(logged) == \A e \in SeqToSet(logged) : e.sv = e.v

\* the part of a store an attestation job can still read with effect
Rel(I, t, dn) == {e \in I : e.agg /\ e.slot >= t /\ e.slot \notin dn}
StoreKept(logged) == Rel(InfoOf(logged), now, done) = Rel(info', now, done) /\ OwnProofs(logged)

TraceSubscribe ==
    /\ IsEvent("Subscribe")
    /\ IF Trace[l].ok
       THEN /\ SubscribeWithF(InfoOf(Trace[l].info), SeqToSet(Trace[l].subs), SeqToSet(Trace[l].sfail))
            /\ OwnProofs(Trace[l].info)
       ELSE SubscribeFail /\ StoreKept(Trace[l].info)

TraceHead ==
    /\ IsEvent("Head")
    /\ IF Trace[l].reorg
       THEN Refresh /\ Trace[l].resub = 1
       ELSE (Housekeep \/ UNCHANGED vars) /\ Trace[l].resub = 0
    /\ StoreKept(Trace[l].info)

TraceResub ==
    /\ IsEvent("Resub")
    /\ IF Trace[l].ok
       THEN /\ ResubOkF(InfoOf(Trace[l].info), SeqToSet(Trace[l].subs), SeqToSet(Trace[l].sfail))
            /\ OwnProofs(Trace[l].info)
       ELSE ResubFail /\ StoreKept(Trace[l].info)

TraceFetch ==
    /\ IsEvent("Fetch")
    /\ ResubFetch(Trace[l].hs)
    /\ Trace[l].id = nheld'

TraceFinish ==
    /\ IsEvent("Finish")
    /\ \E c \in held :
          /\ c.id = Trace[l].id
          /\ HeldFinish(c, InfoOf(Trace[l].info), SeqToSet(Trace[l].subs))
          /\ OwnProofs(Trace[l].info)

LoggedJobs(js) == {[slot |-> j.slot, committee |-> j.committee, v |-> j.v, at |-> j.at, exact |-> JobExact(j)] : j \in js}

TraceAttest ==
    /\ IsEvent("Attest")
    /\ LET t == Trace[l]
           js == SeqToSet(t.jobs) IN
         /\ AttestJob(t.slot, SeqToSet(t.committees), t.ok)
         /\ jobs' = jobs \cup LoggedJobs(js)
         /\ \A j \in js : j.sigok /\ j.rootok /\ j.inslot

TraceNext == TraceReset \/ TraceDuty \/ TraceAdvance \/ TraceSubscribe \/ TraceHead \/ TraceResub \/ TraceFetch \/ TraceFinish
             \/ TraceAttest

TraceSpec == TraceInit /\ [][TraceNext]_tvars

\* every modulus that occurs divides HMod (otherwise the reduced h would not determine the rule)
TraceTypeOK == \A d \in duties : d.h \in 0..(HMod - 1) /\ HMod % Modulus(d.size, target) = 0 /\ EpochOf(d.slot) = geo.ep

HWM == UpdateHWM(l)
TraceAccepted == TraceAcceptedUpTo
=============================================================================
