------------------------------ MODULE ChainTime ------------------------------
(* Slot / epoch / wall-clock conversions of Vouch (services/chaintime/standard/service.go).      *)
(* Every job time of the controller (Controller.tla) is computed from these operators, so they  *)
(* are the single definition used by both specifications.                                       *)
(*                                                                                              *)
(* Chain parameters are a record c = [g |-> genesis time, d |-> slot duration, p |-> slots per  *)
(* epoch]; times are integer seconds on an arbitrary axis (genesis may be negative).            *)
(*                                                                                              *)
(*   StartOfSlot(c, s)       chaintime.Service.StartOfSlot                                      *)
(*   StartOfEpoch(c, e)      chaintime.Service.StartOfEpoch                                     *)
(*   SlotToEpoch(c, s)       chaintime.Service.SlotToEpoch                                      *)
(*   FirstSlotOfEpoch(c, e)  chaintime.Service.FirstSlotOfEpoch                                 *)
(*   SlotAt(c, t)            chaintime.Service.CurrentSlot  when the wall clock reads t         *)
(*   EpochAt(c, t)           chaintime.Service.CurrentEpoch when the wall clock reads t         *)
(*                                                                                              *)
(* Property C03 (last sentence): the conversions agree with one another for every slot and      *)
(* every set of chain parameters.  The agreement laws are the operators Law* below; they are    *)
(* checked exhaustively over small parameter ranges by MC_ChainTime and are evaluated on every  *)
(* sample recorded from the real service by Trace_ChainTime.                                    *)
EXTENDS Integers

StartOfSlot(c, s) == c.g + s * c.d
StartOfEpoch(c, e) == c.g + (e * c.p) * c.d
SlotToEpoch(c, s) == s \div c.p
FirstSlotOfEpoch(c, e) == e * c.p
LastSlotOfEpoch(c, e) == FirstSlotOfEpoch(c, e + 1) - 1

\* before genesis the chain is at slot 0 / epoch 0
SlotAt(c, t) == IF t < c.g THEN 0 ELSE (t - c.g) \div c.d
EpochAt(c, t) == IF t < c.g THEN 0 ELSE (t - c.g) \div (c.d * c.p)

-----------------------------------------------------------------------------
(* Agreement laws. *)
LawEpochOfFirstSlot(c, e) == SlotToEpoch(c, FirstSlotOfEpoch(c, e)) = e
LawSlotInsideItsEpoch(c, s) ==
    /\ FirstSlotOfEpoch(c, SlotToEpoch(c, s)) <= s
    /\ s < FirstSlotOfEpoch(c, SlotToEpoch(c, s) + 1)
LawEpochStartIsSlotStart(c, e) == StartOfEpoch(c, e) = StartOfSlot(c, FirstSlotOfEpoch(c, e))
LawSlotAtItsStart(c, s) == SlotAt(c, StartOfSlot(c, s)) = s
LawSlotAtInside(c, s) == \A o \in 0..(c.d - 1) : SlotAt(c, StartOfSlot(c, s) + o) = s
LawEpochAtIsEpochOfSlotAt(c, t) == EpochAt(c, t) = SlotToEpoch(c, SlotAt(c, t))
LawPreGenesisClamp(c, t) == t < c.g => (SlotAt(c, t) = 0 /\ EpochAt(c, t) = 0)
LawMonotone(c, s) == StartOfSlot(c, s) < StartOfSlot(c, s + 1)

SlotLaws(c, s) ==
    /\ LawSlotInsideItsEpoch(c, s)
    /\ LawSlotAtItsStart(c, s)
    /\ LawSlotAtInside(c, s)
    /\ LawMonotone(c, s)
\* the same without the scan over every second of the slot (used on sampled traces with long slots)
SlotLawsNoScan(c, s) ==
    /\ LawSlotInsideItsEpoch(c, s)
    /\ LawSlotAtItsStart(c, s)
    /\ SlotAt(c, StartOfSlot(c, s) + c.d - 1) = s
    /\ LawMonotone(c, s)
EpochLaws(c, e) ==
    /\ LawEpochOfFirstSlot(c, e)
    /\ LawEpochStartIsSlotStart(c, e)
TimeLaws(c, t) ==
    /\ LawEpochAtIsEpochOfSlotAt(c, t)
    /\ LawPreGenesisClamp(c, t)
=============================================================================
