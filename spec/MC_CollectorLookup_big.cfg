SPECIFICATION LSpec
CONSTANTS
  MaxN = 3
  Variants = {"Best", "Majority", "RootMajority"}
  Values = {1, 2}
  Scores = {0, 1}
  FirstCap = 0
  Roots = {1, 2}
  Dev = "none"
  Tolerant = FALSE
INVARIANTS LTypeOK ReturnsByHard BestIsMax MajorityRule ErrorIffNothing InvalidNeverReturned NotOverdue LookupOwnTime
PROPERTIES LTermination
