---------------------------- MODULE Trace_Accounts ----------------------------
(* Trace specification for C13: traces recorded from the real wallet / dirk account managers      *)
(* (with the real validators manager behind them) are behaviours of Accounts.                     *)
(*   Reset    mgr, cfg (the specifiers as syntax trees - their text went to the real code)        *)
(*   Refresh  what was offered and what the beacon node was scripted to answer (echoed), and      *)
(*            observed after the call: the accounts the manager holds (known) and the validators  *)
(*            manager's table as its public interface reports it (vals: [index, name])           *)
(*   Query    kind, epoch, indices, and the reply: [index, name] pairs                            *)
EXTENDS Accounts, TraceLib

VARIABLE l
tvars == <<vars, l>>

TraceInit ==
    /\ l = 1
    /\ Init
    /\ InitHWM

IsEvent(e) == l <= TraceLen /\ Trace[l].ev = e /\ l' = l + 1

TraceReset ==
    /\ IsEvent("Reset")
    /\ Configure(Trace[l].mgr, Trace[l].cfg)

RecsFn(seq) ==
    LET rs == SeqToSet(seq)
    IN [n \in {r.n : r \in rs} |->
          LET r == CHOOSE x \in rs : x.n = n
          IN [index |-> r.index, elig |-> r.elig, act |-> r.act, exit |-> r.exit, wd |-> r.wd,
              slashed |-> r.slashed, bal0 |-> r.bal0]]

Pairs(seq) == {<<p[1], p[2]>> : p \in SeqToSet(seq)}

TraceRefresh ==
    /\ IsEvent("Refresh")
    /\ LET t == Trace[l]
           out == [mode |-> t.mode, recs |-> RecsFn(t.recs)]
       IN /\ RefreshTo(SeqToSet(t.offer), out, SeqToSet(t.known))
          /\ Pairs(t.vals) = {<<vals'[n].index, n>> : n \in DOMAIN vals'}

TraceQuery ==
    /\ IsEvent("Query")
    /\ LET t == Trace[l] IN
          /\ t.ok
          /\ Query(t.kind, t.epoch, SeqToSet(t.idxs))
          /\ last'.reply = Pairs(t.reply)

TraceNext == TraceReset \/ TraceRefresh \/ TraceQuery

TraceSpec == TraceInit /\ [][TraceNext]_tvars

\* a Reset line starts a new service instance: it is not a refresh
TraceNeverWiped == [][(l <= TraceLen /\ Trace[l].ev = "Reset") \/ NeverWipedStep]_tvars

HWM == UpdateHWM(l)
TraceAccepted == TraceAcceptedUpTo
=============================================================================
