---------------------------- MODULE Trace_Accounts ----------------------------
(* Trace specification for C13: traces recorded from the real wallet / dirk account managers      *)
(* (with the real validators manager behind them) are behaviours of Accounts.                     *)
(*   Reset    mgr, cfg (the specifiers as syntax trees - their text went to the real code)        *)
(*   RefreshA what was offered (echoed) and, observed when the accounts part of the refresh is    *)
(*            over (at the beacon node's door when the refresh is held there, else after the      *)
(*            call), the accounts the manager holds (known)                                       *)
(*   RefreshV what the beacon node was scripted to answer (echoed) and, observed after the call,  *)
(*            the validators manager's table as its public interface reports it (vals: [index,    *)
(*            name])                                                                              *)
(*   Query    kind, epoch, indices, and the reply: [index, name] pairs                            *)
(*   QueryCall / QueryReturn   the same for a query held at the validators manager while other    *)
(*            calls run on the same instances                                                     *)
(* One trace = one history on one pair of instances (the driver keeps them from Reset to Reset).  *)
EXTENDS Accounts, TraceLib

VARIABLE l
tvars == <<vars, l>>

TraceInit ==
    /\ l = 1
    /\ Init
    /\ InitHWM

IsEvent(e) == l <= TraceLen /\ Trace[l].ev = e /\ l' = l + 1

TraceReset ==
    /\ IsEvent("Reset")
    /\ Configure(Trace[l].mgr, Trace[l].cfg)

RecsFn(seq) ==
    LET rs == SeqToSet(seq)
    IN [n \in {r.n : r \in rs} |->
          LET r == CHOOSE x \in rs : x.n = n
          IN [index |-> r.index, elig |-> r.elig, act |-> r.act, exit |-> r.exit, wd |-> r.wd,
              slashed |-> r.slashed, bal0 |-> r.bal0]]

Pairs(seq) == {<<p[1], p[2]>> : p \in SeqToSet(seq)}

\* the two parts of a refresh are logged apart: anything may happen between them
TraceRefreshA ==
    /\ IsEvent("RefreshA")
    /\ RefreshAccountsTo(SeqToSet(Trace[l].offer), SeqToSet(Trace[l].known))

TraceRefreshV ==
    /\ IsEvent("RefreshV")
    /\ LET t == Trace[l]
           out == [mode |-> t.mode, recs |-> RecsFn(t.recs)]
       IN /\ RefreshValidators(out)
          /\ Pairs(t.vals) = {<<vals'[n].index, n>> : n \in DOMAIN vals'}

\* a query that returned before anything else happened
TraceQuery ==
    /\ IsEvent("Query")
    /\ LET t == Trace[l] IN
          /\ t.ok
          /\ Query(t.kind, t.epoch, SeqToSet(t.idxs))
          /\ last'.reply = Pairs(t.reply)

\* a query that other calls overlapped
TraceQueryCall ==
    /\ IsEvent("QueryCall")
    /\ QueryCall(Trace[l].kind, Trace[l].epoch, SeqToSet(Trace[l].idxs))

TraceQueryReturn ==
    /\ IsEvent("QueryReturn")
    /\ Trace[l].ok
    /\ QueryReturnWith(Pairs(Trace[l].reply))

\* "Crash" (a call panicked) and "Hung" (a call did not return) are events no action allows
TraceNext == TraceReset \/ TraceRefreshA \/ TraceRefreshV \/ TraceQuery \/ TraceQueryCall \/ TraceQueryReturn

TraceSpec == TraceInit /\ [][TraceNext]_tvars

\* a Reset line starts a new service instance: it is not a refresh
TraceNeverWiped == [][(l <= TraceLen /\ Trace[l].ev = "Reset") \/ NeverWipedStep]_tvars

HWM == UpdateHWM(l)
TraceAccepted == TraceAcceptedUpTo
=============================================================================
