SPECIFICATION Spec
CONSTANTS
  P = 2
  EP = 2
  G = 1
  MaxSlot = 9
  StartSlots = {0}
  Mode = "design"
  RecMax = 2
  RecKeep = 1
  RootKeep = 2
  BidKeep = 2
  KRoots = 4
  KBids = 4
  Menu = {{}, {0, 1}}
  Moods = {"quiet", "plain", "reorg"}
  MaxReorgs = 1
  MsgLates = {0, 1, 3}
  AucLates = {0, 1, 3}
  SubLates = {0}
  AttLates = {0, 3}
  MaxHeld = 1
  MaxPasses = 1
  MaxHeads = 1
  HoldKinds = {"refresh"}
  Fams = {"att"}
INVARIANTS TypeOK RunningLeftTable AttestedBounded SubsBounded RootsBounded RecordsBounded BidsBounded JobsBounded PendingExact
CHECK_DEADLOCK FALSE
