----------------------------- MODULE MC_Signer -----------------------------
(* Exhaustive checking of Signer.tla: the state machine for every request of the configured       *)
(* constants, and the split/merge theorem of the batch model for ALL batches (any mixture of the   *)
(* four account kinds, not only the ones one account manager can produce) up to LawBatch.          *)
EXTENDS Signer

CONSTANTS LawBatch,
          HistOps, HistKinds, HistFails    \* the requests of the history configurations (MC_Signer_hist*.cfg: Calls <- HistCalls)

\* histories: few request shapes, several overlapping requests (the single-request configurations take
\* every request of the constants and one request per history)
HistCalls == {c \in [op : HistOps, slot : Slots, epoch : {CHOOSE e \in GivenEpochs : TRUE},
                     kinds : SeqsUpTo(HistKinds, MaxBatch), fail : HistFails, failidx : {0}] :
                 /\ ValidCall(c)
                 /\ (SigSpec[c.op].epoch # "slot") => c.slot = CHOOSE s \in Slots : TRUE}

\* forall batches: Merge(Map(sign, Split(b))) = Map(sign, b), with a signing function that tells
\* positions apart and with one that does not (same root for every account)
ASSUME MergeSplitDistinct ==
    \A kinds \in AllBatches(LawBatch) : MergeSplitLaw(kinds, LAMBDA i : <<i, kinds[i]>>)

ASSUME MergeSplitSameRoot ==
    \A kinds \in AllBatches(LawBatch) : MergeSplitLaw(kinds, LAMBDA i : <<kinds[i], VerKey(kinds[i])>>)

\* the split is a partition that keeps the relative order inside each group
ASSUME SplitIsOrderedPartition ==
    \A kinds \in AllBatches(LawBatch) :
        LET o == OrdIdx(kinds)
            d == DistIdx(kinds)
        IN /\ Range(o) \cup Range(d) = 1..Len(kinds)
           /\ Range(o) \cap Range(d) = {}
           /\ \A j \in 1..(Len(o) - 1) : o[j] < o[j + 1]
           /\ \A j \in 1..(Len(d) - 1) : d[j] < d[j + 1]
           /\ \A j \in 1..Len(o) : ~IsDistributed(kinds[o[j]])
           /\ \A j \in 1..Len(d) : IsDistributed(kinds[d[j]])

\* every table row is complete and the genesis rule is used by the builder registration only; every domain
\* type named has its bytes, the two renderings of "the domain type of an operation" agree, and no two names
\* share a value (a wrong type is a DIFFERENT type - in particular 0x00000001 is not 0x01000000)
ASSUME TableSane ==
    /\ \A o \in Ops : /\ SigSpec[o].epoch \in {"slot", "given", "genesis"}
                      /\ (SigSpec[o].epoch = "genesis") = (SigSpec[o].dom = "DOMAIN_APPLICATION_BUILDER")
                      /\ (SigSpec[o].msg \in PerIndexMsg) => (SigSpec[o].batch \/ o = "attestation")
                      /\ SigSpec[o].dom \in DOMAIN DomainTypeBytes
                      /\ TypeOf(o) = SpecType(o)
    /\ \A k1, k2 \in DOMAIN DomainTypeBytes : (k1 # k2) => DomainTypeBytes[k1] # DomainTypeBytes[k2]
    /\ \A k \in DOMAIN DomainTypeBytes : /\ Len(DomainTypeBytes[k]) = 4
                                         /\ \A j \in 1..4 : DomainTypeBytes[k][j] \in 0..255
    /\ LaterKeys \subseteq SpecKeys

\* the start-up inputs of MC_Signer_boot*.cfg (Boots <- ...): every subset of the later keys not listed, every
\* single key broken in either way (also the phase0 ones and SLOTS_PER_EPOCH), the failed lookup - on a chain
\* with 32 and on one with 8 slots per epoch
BootsWide == UNION {BootsOver(LaterKeys, {"ok", "absent"}, n) \cup BootsOneBroken(SpecKeys, n) \cup {SpecErrBoot(n)}
                      : n \in {8, 32}}
\* thorough: every assignment of the three modes to the later keys as well
BootsWider == BootsWide \cup UNION {BootsOver(LaterKeys, KeyModes, n) : n \in {8, 32}}
=============================================================================
