SPECIFICATION Spec
CONSTANTS
  KindSet = {"att", "agg", "prep"}
  ConcSet = {3}
  ItemSet = {1}
  NodeCounts = {3}
  DefaultConc = 16
  MaxCalls = 1
  HistClients = {}
  HistOutcomes = {}
  Design = "wrongcount"
  MaxLat = 2
  CanonOuts = {"accept", "reject", "slowrej1", "slowok2", "hang"}
  ConfSets = {{1, 2}, {1, 2, 3}}
  OtherSets = {{1, 2}, {1, 2, 3}}
  RefKind = "att"
INVARIANTS TypeOK FlagSound TimeoutSignalHeard OfferedInFull SuccessIff ReturnsByTimeout Independence DeliveredToEach ClassifiedByNow
CHECK_DEADLOCK FALSE
