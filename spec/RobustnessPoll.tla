--------------------------- MODULE RobustnessPoll ---------------------------
(* The builder-bid AUCTION with its relay polls made explicit (round 5): the component that Robustness.tla   *)
(* abstracts as "the strategy is called and ends ok / error / fallback" gets its own state, for EVERY STYLE    *)
(* main.go can select for the kind (RobustnessShapes!StrategyStyles.builderbid: best | deadline), and for       *)
(* DESIGNS of the per-relay bookkeeping:                                                                        *)
(*                                                                                                            *)
(*   per relay, in a goroutine of its own (go s.builderBid): poll the relay - once (best) or every bid-gap    *)
(*   until the deadline (deadline) -, classify each answer (RobustnessShapes!PollClass: eligible / zero value *)
(*   / ineligible / no data), pass eligible bids on to the selection loop, and - deadline only - keep the      *)
(*   FIRST and the LAST bid of the relay and a counter for an END-OF-AUCTION REPORT (bid range, percentage     *)
(*   increase = delta * 10000 / value(first)) that the goroutine writes when it stops polling, possibly        *)
(*   after the auction itself has returned to its caller.                                                      *)
(*                                                                                                            *)
(*   checked    first / last are only set from ELIGIBLE bids (after the value, minimum and detail checks), the  *)
(*              report is skipped unless both are set: what the code does.  The divisor is never 0 - an         *)
(*              invariant that is written down nowhere in the code (FirstIsEligible here).                      *)
(*   firstraw   "track every bid that the relay supplies, whether or not it turns out to be eligible, so that   *)
(*              the reported range reflects what the relay offered": first is set from ANY bid object, before   *)
(*              the eligibility checks.  A zero-value first bid followed by an eligible one divides by zero in   *)
(*              the relay's goroutine.  This is seeded/C16-deadline-zero-first-bid-division.                     *)
(*   noguard    the report does not check that there is a first and a last bid: nil dereference whenever a       *)
(*              relay delivered no eligible bid at all - visible with ONE answer kind per auction.               *)
(*                                                                                                            *)
(* The environment presents, per auction, the answer SEQUENCE of a lattice point of the builderbid entry       *)
(* point (RobustnessShapes!BuilderBid: bid, bid2, bid3).  With Scripts = "diagonal" (bid2 = bid3 = same: one     *)
(* answer kind per auction, all the lattice had before round 5) firstraw satisfies every invariant              *)
(* (MC_RobustnessPoll_diagonal.cfg) although noguard is rejected; with the full lattice TLC rejects firstraw      *)
(* (KeepsRunning) - for the deadline style only: the same design under `best` (one poll, no report) passes        *)
(* (MC_RobustnessPoll_best.cfg), which is why a check that drives one style of a kind says nothing about its       *)
(* sibling.  CallerSeesNoPanic - all a recover around BuilderBid() can establish - HOLDS for firstraw              *)
(* (MC_RobustnessPoll_caller.cfg): the panic is in the relay's goroutine.  checks/C16.py runs these as vacuity      *)
(* self-checks and expects exactly these verdicts.                                                               *)
EXTENDS RobustnessShapes

CONSTANTS Designs,      \* designs explored by this configuration
          Styles,       \* styles of the kind explored (subset of StrategyStyles.builderbid)
          Scripts       \* "diagonal" (every poll of an auction answered alike) | "lattice" (every sequence of the lattice)

ASSUME Styles \subseteq StrategyStyles.builderbid

\* the inputs: one relay at a usable address, no configured key (the sequence is what is explored here)
Inputs == {s \in Shapes("builderbid") :
              /\ s.strat \in Styles /\ s.addr = "good" /\ s.pkcfg = "none" /\ s.second = "none"
              /\ (Scripts = "diagonal" => s.bid2 = "same" /\ s.bid3 = "same")}

MaxPolls(style) == IF style = "best" THEN 1 ELSE 3      \* best asks once; deadline: deadline / bid-gap times
Reports(style) == style = "deadline"                     \* only the deadline strategy writes the per-relay report

VARIABLES design,
          input,        \* the auction's input (a lattice point) or NoInput
          polls,        \* polls of the relay answered so far in this auction
          first, last,  \* what the relay's goroutine holds as first / last bid: "none" or a PollClass
          winner,       \* the selection loop has an eligible bid
          returned,     \* BuilderBid() has come back to its caller
          reported,     \* the relay's goroutine has written its report and ended
          callerPanic,  \* a panic was raised in the goroutine that called BuilderBid()
          alive
pvars == <<design, input, polls, first, last, winner, returned, reported, callerPanic, alive>>

NoInput == [strat |-> "none"]

PInit == /\ design \in Designs /\ input = NoInput /\ polls = 0 /\ first = "none" /\ last = "none"
         /\ winner = FALSE /\ returned = FALSE /\ reported = FALSE /\ callerPanic = FALSE /\ alive = TRUE

PStart(s) ==
    /\ alive /\ input = NoInput
    /\ s \in Inputs
    /\ input' = s /\ polls' = 0 /\ first' = "none" /\ last' = "none" /\ winner' = FALSE
    /\ returned' = FALSE /\ reported' = FALSE
    /\ UNCHANGED <<design, callerPanic, alive>>

(* the relay's goroutine polls and books the answer *)
PPoll ==
    /\ alive /\ input # NoInput /\ ~reported
    /\ polls < MaxPolls(input.strat)
    /\ polls' = polls + 1
    /\ LET cl == PollClass(PollAnswer("builderbid", input, "relay1", polls + 1))
           hasBid == cl # "nodata"                 \* a bid object came back (after the IsEmpty check)
           raw == design = "firstraw"
       IN  /\ first' = IF first = "none" /\ (cl = "eligible" \/ (raw /\ hasBid)) THEN cl ELSE first
           /\ last' = IF cl = "eligible" THEN cl ELSE last
           /\ winner' = (winner \/ (cl = "eligible" /\ ~returned))
    /\ UNCHANGED <<design, input, returned, reported, callerPanic, alive>>

(* BuilderBid() comes back: best when its relay has answered (or timed out), deadline when the deadline passes *)
PReturn ==
    /\ alive /\ input # NoInput /\ ~returned
    /\ returned' = TRUE
    /\ UNCHANGED <<design, input, polls, first, last, winner, reported, callerPanic, alive>>

(* the relay's goroutine stops polling and writes the end-of-auction report - before or after PReturn *)
PReport ==
    /\ alive /\ input # NoInput /\ ~reported /\ polls >= 1
    /\ reported' = TRUE
    /\ IF ~Reports(input.strat) THEN UNCHANGED alive
       ELSE IF first = "none" \/ last = "none"
            THEN alive' = (design # "noguard")      \* noguard: nil bid dereferenced
            ELSE alive' = (first # "zero")           \* delta * 10000 / value(first): big.Int.Div panics on 0
    /\ UNCHANGED <<design, input, polls, first, last, winner, returned, callerPanic>>

PDone ==
    /\ alive /\ input # NoInput /\ returned /\ reported
    /\ input' = NoInput /\ polls' = 0 /\ first' = "none" /\ last' = "none" /\ winner' = FALSE
    /\ returned' = FALSE /\ reported' = FALSE
    /\ UNCHANGED <<design, callerPanic, alive>>

PNext == (\E s \in Inputs : PStart(s)) \/ PPoll \/ PReturn \/ PReport \/ PDone

PSpec == PInit /\ [][PNext]_pvars

Classes == {"eligible", "zero", "ineligible", "nodata"}
PTypeOK ==
    /\ design \in Designs /\ alive \in BOOLEAN /\ returned \in BOOLEAN /\ reported \in BOOLEAN
    /\ winner \in BOOLEAN /\ callerPanic \in BOOLEAN
    /\ input = NoInput \/ input \in Inputs
    /\ polls \in 0..3 /\ first \in Classes \cup {"none"} /\ last \in Classes \cup {"none"}

\* C16, for every style of the kind
KeepsRunning == alive

\* the unwritten invariant the report's division relies on (holds for `checked` only)
FirstIsEligible == first \in {"none", "eligible"} /\ last \in {"none", "eligible"}

\* what a recover around BuilderBid() can establish, and no more
CallerSeesNoPanic == ~callerPanic

\* the self-checks are not vacuous: sequences whose answers differ in class exist in the lattice configuration
MixedInputs == Cardinality({s \in Inputs : PollClass(s.bid) # PollClass(PollAnswer("builderbid", s, "relay1", 2))})
=============================================================================
