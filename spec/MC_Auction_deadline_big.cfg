SPECIFICATION Spec
CONSTANTS
  Variants = {"deadline"}
  Relays = {1, 2}
  FetchSet = {}
  Values = {0, 1, 2, 3}
  CfgSet <- MCCfgPair
  TableSet = {"A"}
  BuilderSet = {"std", "plus", "excl", "half"}
  AnswerSet <- MCAnswersSingle
  Headers = {1, 2}
  MaxRounds = 2
  Keys = {1}
  MaxAuctions = 1
  MaxOpen = 1
  Deviation = "none"
INVARIANTS TypeOK WinnerIsArgmax OnlyEligibleWin ProvidersOfferedWinner NoWinnerIffNone ParticipationSound ArrivedConsidered CacheRight ServedRight HistoryShape
