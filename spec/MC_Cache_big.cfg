SPECIFICATION Spec
CONSTANTS
  Roots = {1, 2, 3, 4}
  Slots = {0, 1, 3, 5, 6}
  Nows = {0, 3, 5, 7, 9}
  SlotsPerEpoch = 2
  Retention = 1
INVARIANTS TypeOK MapSound LookupRight ErrorNotSlot
PROPERTY CleanOnlyOld
