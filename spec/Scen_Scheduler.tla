--------------------------- MODULE Scen_Scheduler ---------------------------
(* Schedule generator for C02: behaviours of Scheduler with a history of "who moves next"       *)
(* tokens.  A finished behaviour is printed as JSON and replayed, gate by gate, on the real     *)
(* scheduler (overlay/services/scheduler/advanced/zz_verif_c02_test.go).                        *)
EXTENDS Scheduler, Sequences, Json

CONSTANT ScenLen
VARIABLE hist
svars == <<vars, hist>>

Tok(op, who) == [op |-> op, who |-> who]
H(t) == hist' = Append(hist, t)

SInit == Init /\ hist = <<>>

SNext ==
    /\ Len(hist) < ScenLen
    /\ \/ TimerExpire /\ H(Tok("timer", "env"))
       \/ CtxCancel /\ H(Tok("ctx", "env"))
       \/ Resched /\ H(Tok("resched", "env"))
       \/ \E c \in Callers : \/ RLookup(c) /\ H(Tok("call", c))
                             \/ (RCheck(c) \/ RSend(c)) /\ H(Tok("step", c))
       \* a prefix canceller lists and looks up without a gate in between: the call token stands for both
       \/ \E k \in Cancellers : \/ KList(k) /\ H(Tok("call", k))
                                \/ KLookup(k) /\ (IF k \in PrefixCancellers THEN UNCHANGED hist ELSE H(Tok("call", k)))
                                \/ KSignal(k) /\ H(Tok("step", k))
       \/ GNext /\ H(Tok("step", "g"))

SSpec == SInit /\ [][SNext]_svars

Quiescent == /\ gpc = "done"
             /\ \A c \in Callers : cpc[c] \in {"idle", "done"}
             /\ \A k \in Cancellers : kpc[k] \in {"idle", "done"}
Emit == (Len(hist) = ScenLen \/ (Quiescent /\ Len(hist) > 3)) => PrintT(ToJson(hist))
=============================================================================
