SPECIFICATION Spec
CONSTANTS
  Groups = {"syncduty"}
  Pinned = FALSE
  InPlace = FALSE
  Reuse = FALSE
  WideEnv = TRUE
  Share = "period"
  AliasWrite = "none"
  MaxPar = 2
INVARIANTS TypeOK Linearizable Disciplined SharedImmutable
CONSTRAINT Bounded
CHECK_DEADLOCK FALSE
