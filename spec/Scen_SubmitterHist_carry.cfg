SPECIFICATION Spec
CONSTANTS
  Mode = "carry"
  HKinds = {"att", "agg", "proposal", "syncmsg", "contrib", "bcsub", "scsub", "prep"}
  HConcSet = {2}
  HItemSet = {1}
  HClients = {"lighthouse", "teku"}
  HNodeCounts = {2}
  HLens = {2}
  HOutcomes = {}
  HConfSets = {}
  HVecOuts = {}
INVARIANTS Emit
CHECK_DEADLOCK FALSE
