SPECIFICATION SSpec
CONSTANTS
  Validators = {1, 2}
  P = 2
  StartSlot = 3
  MaxSlot = 10
  MaxVer = 2
  MaxReorgs = 2
  MaxHeads = 12
  ScenHeads = 2
  MaxSlow = 2
  MaxLate = 0
  MaxCarry = 4
  MaxJobs = 16
  MinReorgEpoch = 1
  FTs = {TRUE, FALSE}
  MCSeeds <- SeedsBig
  Oracles <- MCOracles
  Late = 2
  CancelRace = FALSE
  DeleteByName = FALSE
  Overlap = FALSE
  Failures = FALSE
  Fine = FALSE
  TickFirst = TRUE
  Reduce = TRUE
INVARIANTS Emit NoDoubleSign SlotOnce TableExact PendingExact
CHECK_DEADLOCK FALSE
