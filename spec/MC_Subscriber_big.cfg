SPECIFICATION Spec
CONSTANTS
  Validators = {1, 2}
  SlotSpace = {2, 3}
  Nows = {1, 2, 3, 6}
  Committees = {0, 1}
  Sizes = {8}
  Targets = {2, 16}
  HVals = {0, 1}
  HMod = 8
  MaxDuties = 2
  MaxSubs = 1
  SPE = 2
  Ep = 1
  MaxRefresh = 1
  MaxChanges = 1
  MaxHeld = 0
  SignerMayFail = FALSE
INVARIANTS TypeOK AllFutureSubscribed AggregatorRuleExact SubscriptionHistoryIndependent InfoPrefersAggregator InfoInForceComplete EveryAggregatorCommitteeScheduled NoAggregationForPastSlot
CHECK_DEADLOCK FALSE
