SPECIFICATION Spec
CONSTANTS
  Validators = {1, 2, 3}
  SlotSpace = {2, 3}
  Nows = {1, 2, 3}
  Committees = {0, 1}
  Sizes = {8}
  Targets = {2, 16}
  HVals = {0, 1}
  HMod = 8
  MaxDuties = 3
  MaxSubs = 1
INVARIANTS TypeOK AllFutureSubscribed AggregatorRuleExact InfoPrefersAggregator EveryAggregatorCommitteeScheduled NoAggregationForPastSlot
CHECK_DEADLOCK FALSE
