---------------------------- MODULE SyncCommittee ----------------------------
(* Sync committee duties of Vouch (property C15).                                               *)
(*                                                                                              *)
(*   services/controller/standard/synccommitteemessenger.go  scheduleSyncCommitteeMessages,     *)
(*                                                           prepareMessageSyncCommittee,       *)
(*                                                           messageSyncCommittee               *)
(*   services/controller/standard/service.go                 altairDetails (fork epoch)         *)
(*   services/synccommitteemessenger/standard/service.go     Prepare, Message                   *)
(*   services/synccommitteeaggregator/standard/service.go    SetBeaconBlockRoot, Aggregate      *)
(*                                                                                              *)
(* Environment (independently enabled):                                                         *)
(*   AddMember(v, m)   the sync committee duty oracle gains validator v with committee          *)
(*                     positions m.idx; m.acct: Vouch holds an account for it                   *)
(*   Advance(t)        the clock;   NewHead(r)   the beacon node's head root                    *)
(*   the SIGNER, at each of the three signing steps of every slot, chosen anew per call:        *)
(*     "sel"  SignSyncCommitteeSelections (Prepare): the answers are the argument H of          *)
(*            FirePrepare; H[r] = ZeroSig: the zero signature for that (member, subcommittee)   *)
(*            and no error for the batch; E: an error for the whole batch                       *)
(*     "root" SignSyncCommitteeRoots (Message): Z = the members answered with the zero          *)
(*            signature; E: an error for the whole batch                                        *)
(*     "cp"   SignContributionAndProofs (Aggregate): ZC = the (member, subcommittee) pairs      *)
(*            answered with the zero signature; E: an error for the whole batch                 *)
(*   The faults are recorded per (slot, step, member) in `faults` / `berr`; nothing carries     *)
(*   over from one slot or step to another.                                                     *)
(* Vouch:                                                                                       *)
(*   Schedule(e, nc)   scheduleSyncCommitteeMessages for the period of epoch e                  *)
(*   FirePrepare(s,H)  the prepare job of slot s: Prepare, then the message job is set up       *)
(*   FireMessage(s,A)  the message job of slot s: head root obtained, messages signed and       *)
(*                     submitted, root remembered for the aggregator, aggregation job set up    *)
(*   FireAggregate(s,C) the aggregation job of slot s: contributions C submitted                *)
EXTENDS Integers, FiniteSets, Sequences, TLC

CONSTANTS SlotsPerEpoch,   \* SLOTS_PER_EPOCH
          EpochsPerPeriod, \* EPOCHS_PER_SYNC_COMMITTEE_PERIOD
          Forks,           \* Altair fork epochs
          Nows,            \* clock positions (slots)
          ScheduleEpochs,  \* epoch arguments of Schedule
          Members,         \* validator indices
          IndexSets,       \* the sets of committee positions a member may hold
          Sizes,           \* SYNC_COMMITTEE_SIZE values
          SubnetCounts,    \* SYNC_COMMITTEE_SUBNET_COUNT values
          Targets,         \* TARGET_AGGREGATORS_PER_SYNC_SUBCOMMITTEE values
          Roots,           \* head roots
          HVals,           \* values of the selection scalar the signer's answers may have
          HMod,            \* the scalar is given modulo HMod
          MaxSched,        \* bounds for model checking
          MaxFired,
          FaultKinds,      \* what the signer may do: subset of {"sel", "root", "cp", "selerr", "rooterr", "cperr"}
          Deviation        \* "none", or the name of a control design that must be rejected (see Deviations)

VARIABLES now, fork, shape, target, head,
          member,    \* function from the members of the duty to [idx, acct]
          started,   \* the duty oracle is frozen once Vouch has acted on it
          sched,     \* Schedule calls so far: set of [period, at, nc]
          prepJobs,  \* slots with a pending prepare job
          msgJobs,   \* slots with a pending message job
          aggJobs,   \* slots with a pending aggregation job
          prepared,  \* slots whose prepare job has run
          hsig,      \* selection signatures seen: set of [slot, v, sub, h]
          sel,       \* selected contribution aggregators: set of [slot, v, sub]
          roots,     \* head root obtained for a slot's messages: set of [slot, root]
          msgs,      \* submitted messages: set of [slot, v, root, sigv, sigroot, sigepoch]
          contribs,  \* submitted contributions: set of [slot, v, sub, root]
          faults,    \* zero signatures the signer returned: set of [slot, step, v, sub] (sub = 0 for step "root")
          berr       \* signing requests answered with an error for the whole batch: set of [slot, step]

vars == <<now, fork, shape, target, head, member, started, sched, prepJobs, msgJobs, aggJobs,
          prepared, hsig, sel, roots, msgs, contribs, faults, berr>>

\* the scalar recorded for a zero selection signature (no real scalar is negative)
ZeroSig == -1

\* Control designs (vacuity self-check: TLC must find MembersIndependent violated for each of them):
\*   ZeroSelFailsPrepare  one zero selection signature and the slot gets no message job
\*   ZeroRootFailsAll     one zero root signature and nobody's message is submitted
\*   ZeroCpFailsAll       one zero contribution-and-proof signature and no contribution is submitted
\*   FaultSticks          a member whose selection signature was zero in some slot is left out of the
\*                        messages of every later message job as well
Deviations == {"none", "ZeroSelFailsPrepare", "ZeroRootFailsAll", "ZeroCpFailsAll", "FaultSticks"}
ASSUME Deviation \in Deviations
ASSUME FaultKinds \subseteq {"sel", "root", "cp", "selerr", "rooterr", "cperr"}

Max(a, b) == IF a >= b THEN a ELSE b

\* shape = <<SYNC_COMMITTEE_SIZE, SYNC_COMMITTEE_SUBNET_COUNT>>
Shapes == {sh \in Sizes \X SubnetCounts : sh[1] % sh[2] = 0}

Epoch(s) == s \div SlotsPerEpoch
FirstSlot(e) == e * SlotsPerEpoch

-----------------------------------------------------------------------------
(* The slot window of a period.  Period starts are clamped to the Altair fork epoch; the        *)
(* message for the period's first slot is produced in the slot before it (there is none before  *)
(* slot 0); the last slot of the period produces no message.                                    *)
PeriodOf(e) == e \div EpochsPerPeriod
PeriodStart(p) == Max(p * EpochsPerPeriod, fork)
PeriodFirstSlot(p) == FirstSlot(PeriodStart(p))
PeriodLastSlot(p) == FirstSlot(PeriodStart(p + 1)) - 1
WindowFirst(p, t) == Max(IF PeriodFirstSlot(p) = 0 THEN 0 ELSE PeriodFirstSlot(p) - 1, t)
Window(p, t) == WindowFirst(p, t) .. (PeriodLastSlot(p) - 1)
\* What a Schedule call c = [period, at, nc] must set up and what it may set up.  Before the fork
\* epoch nothing can be demanded of the call (the fork epoch's own tick does it, C03); a call may
\* be told to leave the current slot to others (nc).  It may never set up a slot outside the window.
Required(c) == IF Epoch(c.at) < fork THEN {}
               ELSE Window(c.period, c.at) \ (IF c.nc THEN {c.at} ELSE {})
Allowed(c) == Window(c.period, c.at)

(* Subcommittees and the consensus specification's rule (is_sync_committee_aggregator).         *)
SubSize == shape[1] \div shape[2]
SubOf(i) == i \div SubSize
Modulus == Max(1, SubSize \div target)
IsAggregator(h) == h % Modulus = 0

Known == DOMAIN member
WithAccount == {v \in Known : member[v].acct}

\* the faults of one slot
SelZero(s) == {<<f.v, f.sub>> : f \in {g \in faults : g.slot = s /\ g.step = "sel"}}
RootZero(s) == {f.v : f \in {g \in faults : g.slot = s /\ g.step = "root"}}
CpZero(s) == {<<f.v, f.sub>> : f \in {g \in faults : g.slot = s /\ g.step = "cp"}}
BatchErr(s, step) == [slot |-> s, step |-> step] \in berr
\* the members whose message for slot s the property protects once the signer answered the batch
Signed(s) == WithAccount \ RootZero(s)

\* the selection signatures Prepare asks for: members with an account, per subcommittee position
Requests == UNION {{<<v, SubOf(i)>> : i \in member[v].idx} : v \in WithAccount}

OfSlot(S, s) == {x \in S : x.slot = s}

-----------------------------------------------------------------------------
Init ==
    /\ now \in Nows
    /\ fork \in Forks
    /\ shape \in Shapes
    /\ target \in Targets
    /\ head \in Roots
    /\ member = [v \in {} |-> 0]
    /\ started = FALSE
    /\ sched = {}
    /\ prepJobs = {} /\ msgJobs = {} /\ aggJobs = {} /\ prepared = {}
    /\ hsig = {} /\ sel = {} /\ roots = {} /\ msgs = {} /\ contribs = {}
    /\ faults = {} /\ berr = {}

AddMember(v, m) ==
    /\ ~started
    /\ v \notin Known
    /\ m.idx # {}
    /\ member' = [x \in Known \cup {v} |-> IF x = v THEN m ELSE member[x]]
    /\ UNCHANGED <<now, fork, shape, target, head, started, sched, prepJobs, msgJobs, aggJobs,
                   prepared, hsig, sel, roots, msgs, contribs, faults, berr>>

Advance(t) ==
    /\ t \in Nows /\ t > now
    /\ now' = t
    /\ UNCHANGED <<fork, shape, target, head, member, started, sched, prepJobs, msgJobs, aggJobs,
                   prepared, hsig, sel, roots, msgs, contribs, faults, berr>>

NewHead(r) ==
    /\ r \in Roots /\ r # head
    /\ head' = r
    /\ UNCHANGED <<now, fork, shape, target, member, started, sched, prepJobs, msgJobs, aggJobs,
                   prepared, hsig, sel, roots, msgs, contribs, faults, berr>>

\* one prepare job per slot of the window (a slot that already has one keeps it); P = the pending
\* prepare jobs after the call
Schedule(e, nc, P) ==
    /\ Known # {}
    /\ Cardinality(sched) < MaxSched
    /\ LET c == [period |-> PeriodOf(e), at |-> now, nc |-> nc] IN
         /\ prepJobs \subseteq P
         /\ Required(c) \subseteq P
         /\ (P \ prepJobs) \subseteq Allowed(c)
         /\ sched' = sched \cup {c}
         /\ prepJobs' = P
    /\ started' = TRUE
    /\ UNCHANGED <<now, fork, shape, target, head, member, msgJobs, aggJobs,
                   prepared, hsig, sel, roots, msgs, contribs, faults, berr>>

Fault(s, step, v, sub) == [slot |-> s, step |-> step, v |-> v, sub |-> sub]
BErr(s, step) == [slot |-> s, step |-> step]

\* The prepare job of slot s (it runs once: C02/C03).
\*   E   the selection signer answered the batch with an error (then H is the empty function)
\*   H   otherwise: the scalars of the selection signatures the signer returned, one per request;
\*       ZeroSig for a request answered with the zero signature
\*   ZS  the zero-signed requests that end up selected all the same (the property is silent about
\*       the member whose own signature is missing: hashing the zero signature like any other, or
\*       leaving the member out, are both fine)
\*   M   a message job for the slot exists afterwards.  It must whenever the signer answered the
\*       batch: a zero signature for one member is no reason to leave the slot out for everyone.
CanPrepare(s) == s \in prepJobs /\ s \notin prepared /\ Cardinality(prepared \cup {s}) <= MaxFired

FirePrepare(s, H, E, ZS, M) ==
    /\ CanPrepare(s)
    /\ E \in BOOLEAN /\ M \in BOOLEAN
    /\ E => Requests # {}
    /\ DOMAIN H = (IF E THEN {} ELSE Requests)
    /\ LET zero == {r \in DOMAIN H : H[r] = ZeroSig} IN
         /\ ZS \subseteq zero
         /\ (~E /\ ~(Deviation = "ZeroSelFailsPrepare" /\ zero # {})) => M
         /\ hsig' = (hsig \ OfSlot(hsig, s)) \cup {[slot |-> s, v |-> r[1], sub |-> r[2], h |-> H[r]] : r \in DOMAIN H}
         /\ sel' = (sel \ OfSlot(sel, s))
                     \cup {[slot |-> s, v |-> r[1], sub |-> r[2]] : r \in {q \in DOMAIN H \ zero : IsAggregator(H[q])} \cup ZS}
         /\ faults' = faults \cup {Fault(s, "sel", r[1], r[2]) : r \in zero}
    /\ berr' = IF E THEN berr \cup {BErr(s, "sel")} ELSE berr
    /\ prepJobs' = prepJobs \ {s}
    /\ prepared' = prepared \cup {s}
    /\ msgJobs' = IF M THEN msgJobs \cup {s} ELSE msgJobs
    /\ started' = TRUE
    /\ UNCHANGED <<now, fork, shape, target, head, member, sched, aggJobs, roots, msgs, contribs>>

\* the message a member with a working signature sends for slot s over root r
Message(s, v, r) == [slot |-> s, v |-> v, root |-> r, sigv |-> v, sigroot |-> r, sigepoch |-> Epoch(s)]

\* a selected pair whose contribution the property protects: the member has an account, its selection
\* signature and its root signature for the slot were really given (the pair of a member whose own
\* signature failed is left open)
SoundWith(x, zsel, zroot) == x.v \in WithAccount /\ <<x.v, x.sub>> \notin zsel /\ x.v \notin zroot
Sound(x) == SoundWith(x, SelZero(x.slot), RootZero(x.slot))

\* The message job of slot s.
\*   E   the root signer answered the batch with an error: nothing can be submitted
\*   Z   otherwise: the members answered with the zero signature
\*   A   an aggregation job is set up.  It must be when a sound pair is selected; it may be when only
\*       pairs of members whose signature failed are selected.
FireMessage(s, Z, E, A) ==
    /\ s \in msgJobs
    /\ E \in BOOLEAN /\ A \in BOOLEAN
    /\ Z \subseteq WithAccount
    /\ E => (Z = {} /\ WithAccount # {})
    /\ msgJobs' = msgJobs \ {s}
    /\ roots' = (roots \ OfSlot(roots, s)) \cup {[slot |-> s, root |-> head]}
    /\ faults' = faults \cup {Fault(s, "root", v, 0) : v \in Z}
    /\ berr' = IF E THEN berr \cup {BErr(s, "root")} ELSE berr
    /\ LET signed == IF E THEN {} ELSE WithAccount \ Z
           dropped == CASE Deviation = "ZeroRootFailsAll" /\ Z # {} -> signed
                        [] Deviation = "FaultSticks" -> {v \in signed : \E f \in faults : f.step = "sel" /\ f.v = v}
                        [] OTHER -> {}
       IN /\ msgs' = msgs \cup {Message(s, v, head) : v \in signed \ dropped}
          /\ (~E /\ dropped = {} /\ \E x \in OfSlot(sel, s) : SoundWith(x, SelZero(s), Z)) => A
    /\ A => OfSlot(sel, s) # {}
    /\ aggJobs' = IF A THEN aggJobs \cup {s} ELSE aggJobs
    /\ UNCHANGED <<now, fork, shape, target, head, member, started, sched, prepJobs, prepared, hsig, sel, contribs>>

Remembered(s) == (CHOOSE x \in OfSlot(roots, s) : TRUE).root

Contribution(x) == [slot |-> x.slot, v |-> x.v, sub |-> x.sub, root |-> Remembered(x.slot)]

PairsOf(s) == {<<x.v, x.sub>> : x \in OfSlot(sel, s)}

AggAll(s) == {Contribution(x) : x \in OfSlot(sel, s)}
AggMust(s, ZC) == IF Deviation = "ZeroCpFailsAll" /\ ZC # {} THEN {}
                  ELSE {Contribution(x) : x \in {y \in OfSlot(sel, s) : Sound(y) /\ <<y.v, y.sub>> \notin ZC}}

\* The aggregation job of slot s.
\*   E   the contribution-and-proof signer answered the batch with an error
\*   ZC  otherwise: the selected pairs answered with the zero signature
\*   C   the contributions submitted with a signature of their own: those of sound pairs that were
\*       signed are obligatory, the others are left open
FireAggregate(s, ZC, E, C) ==
    /\ s \in aggJobs
    /\ E \in BOOLEAN
    /\ ZC \subseteq PairsOf(s)
    /\ E => ZC = {}
    /\ aggJobs' = aggJobs \ {s}
    /\ faults' = faults \cup {Fault(s, "cp", p[1], p[2]) : p \in ZC}
    /\ berr' = IF E THEN berr \cup {BErr(s, "cp")} ELSE berr
    /\ (IF E THEN {} ELSE AggMust(s, ZC)) \subseteq C
    /\ C \subseteq AggAll(s)
    /\ contribs' = contribs \cup C
    /\ UNCHANGED <<now, fork, shape, target, head, member, started, sched, prepJobs, msgJobs, prepared, hsig, sel, roots, msgs>>

MemberSpace == [idx : IndexSets, acct : BOOLEAN]

Opt(kind, S) == IF kind \in FaultKinds THEN S ELSE {}
ErrChoice(kind) == IF kind \in FaultKinds THEN BOOLEAN ELSE {FALSE}

\* Where an action leaves a set open between a least and a greatest value (the zero-signed requests
\* selected all the same; the contributions submitted beyond the obligatory ones) Next enumerates the
\* least set, the greatest set and the least set plus one element: every invariant that reads those
\* sets is monotone in them.  (The trace specification uses the actions with the logged sets.)
Extremes(lo, hi) == {lo, hi} \cup {lo \cup {x} : x \in hi}
Next ==
    \/ \E v \in Members : \E m \in MemberSpace : AddMember(v, m)
    \/ \E t \in Nows : Advance(t)
    \/ \E r \in Roots : NewHead(r)
    \/ \E e \in ScheduleEpochs : \E nc \in BOOLEAN :
          \E W \in SUBSET Window(PeriodOf(e), now) : Schedule(e, nc, prepJobs \cup W)
    \/ \E s \in {x \in prepJobs : CanPrepare(x)} : \E M \in BOOLEAN :
          \/ \E H \in [Requests -> HVals \cup Opt("sel", {ZeroSig})] :
                \E ZS \in Extremes({}, {r \in Requests : H[r] = ZeroSig}) : FirePrepare(s, H, FALSE, ZS, M)
          \/ "selerr" \in FaultKinds /\ FirePrepare(s, <<>>, TRUE, {}, M)
    \/ \E s \in msgJobs : \E A \in BOOLEAN :
          \/ \E Z \in {{}} \cup Opt("root", SUBSET WithAccount) : FireMessage(s, Z, FALSE, A)
          \/ "rooterr" \in FaultKinds /\ FireMessage(s, {}, TRUE, A)
    \/ \E s \in aggJobs :
          \/ \E ZC \in {{}} \cup Opt("cp", SUBSET PairsOf(s)) :
                \E C \in Extremes(AggMust(s, ZC), AggAll(s)) : FireAggregate(s, ZC, FALSE, C)
          \/ "cperr" \in FaultKinds /\ \E C \in Extremes({}, AggAll(s)) : FireAggregate(s, {}, TRUE, C)

Spec == Init /\ [][Next]_vars

-----------------------------------------------------------------------------
TypeOK ==
    /\ now \in Nows /\ fork \in Forks /\ shape \in Shapes /\ target \in Targets /\ head \in Roots
    /\ \A sh \in Shapes : \A t \in Targets : sh[1] % sh[2] = 0 /\ HMod % Max(1, (sh[1] \div sh[2]) \div t) = 0
    /\ \A x \in hsig : x.h \in (0 .. (HMod - 1)) \cup {ZeroSig}
    /\ \A f \in faults : f.step \in {"sel", "root", "cp"} /\ f.v \in WithAccount
    /\ \A b \in berr : b.step \in {"sel", "root", "cp"}

Pending == prepJobs \cup prepared

\* C15: a message job chain exists for every slot from the one before the period's first slot
\* (or from now, if later) to the one before the period's last slot ...
EverySlotOfWindow == \A c \in sched : Required(c) \subseteq Pending

\* ... and for no other slot (slots before the fork, or of another period)
OnlySlotsOfWindow == \A s \in Pending : \E c \in sched : s \in Allowed(c)

\* a message job is set up only by the slot's prepare job, an aggregation job only after its messages
JobOrder ==
    /\ msgJobs \subseteq prepared
    /\ \A s \in aggJobs : OfSlot(roots, s) # {}

\* C15: each message is signed over the head root obtained for that slot, by its member, for the slot's epoch
SignedOverObtainedRoot ==
    \A m \in msgs : /\ \E r \in OfSlot(roots, m.slot) : TRUE
                    /\ m.sigroot = m.root /\ m.sigv = m.v /\ m.sigepoch = Epoch(m.slot)
                    /\ m.v \in Signed(m.slot) /\ ~BatchErr(m.slot, "root")

\* C15: a member without an account, or whose signature is zero at one of the signing steps of a
\* slot, removes only its own message / contribution of that slot: in every slot
\*   - whose selection batch was answered, the message job exists (or has run) whatever the
\*     individual answers were,
\*   - whose root batch was answered, every member with an account and a root signature has its
\*     message submitted,
\*   - in which a sound pair is selected, the aggregation job exists, or has run and (if its batch
\*     was answered) submitted the contribution of every sound pair that was signed
MembersIndependent ==
    /\ \A s \in prepared : ~BatchErr(s, "sel") => (s \in msgJobs \/ OfSlot(roots, s) # {})
    /\ \A r \in roots : ~BatchErr(r.slot, "root") =>
            \A v \in Signed(r.slot) : \E m \in msgs : m.slot = r.slot /\ m.v = v /\ m.root = r.root
    /\ \A r \in roots : (~BatchErr(r.slot, "root") /\ \E x \in OfSlot(sel, r.slot) : Sound(x)) =>
            \/ r.slot \in aggJobs
            \/ BatchErr(r.slot, "cp")
            \/ \A x \in OfSlot(sel, r.slot) : (Sound(x) /\ <<x.v, x.sub>> \notin CpZero(r.slot)) => Contribution(x) \in contribs

\* C15: contribution aggregators are selected per subcommittee by the specification's rule, among
\* the members with an account (the pair of a zero selection signature is left open), and
\* contributions use the root remembered for the slot
AggregatorRuleExact ==
    /\ \A x \in hsig : x.v \in WithAccount /\ \E i \in member[x.v].idx : SubOf(i) = x.sub
    /\ \A s \in prepared : ~BatchErr(s, "sel") => \A v \in WithAccount : \A i \in member[v].idx :
            \E x \in OfSlot(hsig, s) : x.v = v /\ x.sub = SubOf(i)
    /\ \A x \in hsig : x.h # ZeroSig => (IsAggregator(x.h) <=> [slot |-> x.slot, v |-> x.v, sub |-> x.sub] \in sel)
    /\ \A y \in sel : \E x \in hsig : x.slot = y.slot /\ x.v = y.v /\ x.sub = y.sub
    /\ \A c \in contribs : [slot |-> c.slot, v |-> c.v, sub |-> c.sub] \in sel
                           /\ \E r \in roots : r.slot = c.slot
=============================================================================
