---------------------------- MODULE SyncCommittee ----------------------------
(* Sync committee duties of Vouch (property C15).                                               *)
(*                                                                                              *)
(*   services/controller/standard/synccommitteemessenger.go  scheduleSyncCommitteeMessages,     *)
(*                                                           prepareMessageSyncCommittee,       *)
(*                                                           messageSyncCommittee               *)
(*   services/controller/standard/service.go                 altairDetails (fork epoch)         *)
(*   services/synccommitteemessenger/standard/service.go     Prepare, Message                   *)
(*   services/synccommitteeaggregator/standard/service.go    SetBeaconBlockRoot, Aggregate      *)
(*                                                                                              *)
(* Environment (independently enabled):                                                         *)
(*   AddMember(v, m)   the sync committee duty oracle gains validator v with committee          *)
(*                     positions m.idx; m.acct: Vouch holds an account for it; m.zero: the      *)
(*                     signer returns a zero signature for its messages (its signature fails)   *)
(*   Advance(t)        the clock;   NewHead(r)   the beacon node's head root                    *)
(*   the selection signer's answers are the argument H of FirePrepare                           *)
(* Vouch:                                                                                       *)
(*   Schedule(e, nc)   scheduleSyncCommitteeMessages for the period of epoch e                  *)
(*   FirePrepare(s,H)  the prepare job of slot s: Prepare, then the message job is set up       *)
(*   FireMessage(s,A)  the message job of slot s: head root obtained, messages signed and       *)
(*                     submitted, root remembered for the aggregator, aggregation job set up    *)
(*   FireAggregate(s,C) the aggregation job of slot s: contributions C submitted                *)
EXTENDS Integers, FiniteSets, Sequences, TLC

CONSTANTS SlotsPerEpoch,   \* SLOTS_PER_EPOCH
          EpochsPerPeriod, \* EPOCHS_PER_SYNC_COMMITTEE_PERIOD
          Forks,           \* Altair fork epochs
          Nows,            \* clock positions (slots)
          ScheduleEpochs,  \* epoch arguments of Schedule
          Members,         \* validator indices
          IndexSets,       \* the sets of committee positions a member may hold
          Sizes,           \* SYNC_COMMITTEE_SIZE values
          SubnetCounts,    \* SYNC_COMMITTEE_SUBNET_COUNT values
          Targets,         \* TARGET_AGGREGATORS_PER_SYNC_SUBCOMMITTEE values
          Roots,           \* head roots
          HVals,           \* values of the selection scalar the signer's answers may have
          HMod,            \* the scalar is given modulo HMod
          MaxSched,        \* bounds for model checking
          MaxFired

VARIABLES now, fork, shape, target, head,
          member,    \* function from the members of the duty to [idx, acct, zero]
          started,   \* the duty oracle is frozen once Vouch has acted on it
          sched,     \* Schedule calls so far: set of [period, at, nc]
          prepJobs,  \* slots with a pending prepare job
          msgJobs,   \* slots with a pending message job
          aggJobs,   \* slots with a pending aggregation job
          prepared,  \* slots whose prepare job has run
          hsig,      \* selection signatures seen: set of [slot, v, sub, h]
          sel,       \* selected contribution aggregators: set of [slot, v, sub]
          roots,     \* head root obtained for a slot's messages: set of [slot, root]
          msgs,      \* submitted messages: set of [slot, v, root, sigv, sigroot, sigepoch]
          contribs   \* submitted contributions: set of [slot, v, sub, root]

vars == <<now, fork, shape, target, head, member, started, sched, prepJobs, msgJobs, aggJobs,
          prepared, hsig, sel, roots, msgs, contribs>>

Max(a, b) == IF a >= b THEN a ELSE b

\* shape = <<SYNC_COMMITTEE_SIZE, SYNC_COMMITTEE_SUBNET_COUNT>>
Shapes == {sh \in Sizes \X SubnetCounts : sh[1] % sh[2] = 0}

Epoch(s) == s \div SlotsPerEpoch
FirstSlot(e) == e * SlotsPerEpoch

-----------------------------------------------------------------------------
(* The slot window of a period.  Period starts are clamped to the Altair fork epoch; the        *)
(* message for the period's first slot is produced in the slot before it (there is none before  *)
(* slot 0); the last slot of the period produces no message.                                    *)
PeriodOf(e) == e \div EpochsPerPeriod
PeriodStart(p) == Max(p * EpochsPerPeriod, fork)
PeriodFirstSlot(p) == FirstSlot(PeriodStart(p))
PeriodLastSlot(p) == FirstSlot(PeriodStart(p + 1)) - 1
WindowFirst(p, t) == Max(IF PeriodFirstSlot(p) = 0 THEN 0 ELSE PeriodFirstSlot(p) - 1, t)
Window(p, t) == WindowFirst(p, t) .. (PeriodLastSlot(p) - 1)
\* What a Schedule call c = [period, at, nc] must set up and what it may set up.  Before the fork
\* epoch nothing can be demanded of the call (the fork epoch's own tick does it, C03); a call may
\* be told to leave the current slot to others (nc).  It may never set up a slot outside the window.
Required(c) == IF Epoch(c.at) < fork THEN {}
               ELSE Window(c.period, c.at) \ (IF c.nc THEN {c.at} ELSE {})
Allowed(c) == Window(c.period, c.at)

(* Subcommittees and the consensus specification's rule (is_sync_committee_aggregator).         *)
SubSize == shape[1] \div shape[2]
SubOf(i) == i \div SubSize
Modulus == Max(1, SubSize \div target)
IsAggregator(h) == h % Modulus = 0

Known == DOMAIN member
WithAccount == {v \in Known : member[v].acct}
Healthy == {v \in Known : member[v].acct /\ ~member[v].zero}

\* the selection signatures Prepare asks for: members with an account, per subcommittee position
Requests == UNION {{<<v, SubOf(i)>> : i \in member[v].idx} : v \in WithAccount}

OfSlot(S, s) == {x \in S : x.slot = s}

-----------------------------------------------------------------------------
Init ==
    /\ now \in Nows
    /\ fork \in Forks
    /\ shape \in Shapes
    /\ target \in Targets
    /\ head \in Roots
    /\ member = [v \in {} |-> 0]
    /\ started = FALSE
    /\ sched = {}
    /\ prepJobs = {} /\ msgJobs = {} /\ aggJobs = {} /\ prepared = {}
    /\ hsig = {} /\ sel = {} /\ roots = {} /\ msgs = {} /\ contribs = {}

AddMember(v, m) ==
    /\ ~started
    /\ v \notin Known
    /\ m.idx # {}
    /\ member' = [x \in Known \cup {v} |-> IF x = v THEN m ELSE member[x]]
    /\ UNCHANGED <<now, fork, shape, target, head, started, sched, prepJobs, msgJobs, aggJobs,
                   prepared, hsig, sel, roots, msgs, contribs>>

Advance(t) ==
    /\ t \in Nows /\ t > now
    /\ now' = t
    /\ UNCHANGED <<fork, shape, target, head, member, started, sched, prepJobs, msgJobs, aggJobs,
                   prepared, hsig, sel, roots, msgs, contribs>>

NewHead(r) ==
    /\ r \in Roots /\ r # head
    /\ head' = r
    /\ UNCHANGED <<now, fork, shape, target, member, started, sched, prepJobs, msgJobs, aggJobs,
                   prepared, hsig, sel, roots, msgs, contribs>>

\* one prepare job per slot of the window (a slot that already has one keeps it); P = the pending
\* prepare jobs after the call
Schedule(e, nc, P) ==
    /\ Known # {}
    /\ Cardinality(sched) < MaxSched
    /\ LET c == [period |-> PeriodOf(e), at |-> now, nc |-> nc] IN
         /\ prepJobs \subseteq P
         /\ Required(c) \subseteq P
         /\ (P \ prepJobs) \subseteq Allowed(c)
         /\ sched' = sched \cup {c}
         /\ prepJobs' = P
    /\ started' = TRUE
    /\ UNCHANGED <<now, fork, shape, target, head, member, msgJobs, aggJobs,
                   prepared, hsig, sel, roots, msgs, contribs>>

\* H: the scalars of the selection signatures the signer returned, one per request
\* (the prepare job of a slot runs once: C02/C03)
FirePrepare(s, H) ==
    /\ s \in prepJobs /\ s \notin prepared
    /\ Cardinality(prepared \cup {s}) <= MaxFired
    /\ DOMAIN H = Requests
    /\ prepJobs' = prepJobs \ {s}
    /\ prepared' = prepared \cup {s}
    /\ msgJobs' = msgJobs \cup {s}
    /\ hsig' = (hsig \ OfSlot(hsig, s)) \cup {[slot |-> s, v |-> r[1], sub |-> r[2], h |-> H[r]] : r \in Requests}
    /\ sel' = (sel \ OfSlot(sel, s)) \cup {[slot |-> s, v |-> r[1], sub |-> r[2]] : r \in {q \in Requests : IsAggregator(H[q])}}
    /\ started' = TRUE
    /\ UNCHANGED <<now, fork, shape, target, head, member, sched, aggJobs, roots, msgs, contribs>>

\* the message a member with a working signature sends for slot s over root r
Message(s, v, r) == [slot |-> s, v |-> v, root |-> r, sigv |-> v, sigroot |-> r, sigepoch |-> Epoch(s)]

\* A: is an aggregation job set up?  It must be when a member whose own duty works is selected;
\* it may be when only members whose signature failed are selected.
FireMessage(s, A) ==
    /\ s \in msgJobs
    /\ msgJobs' = msgJobs \ {s}
    /\ roots' = (roots \ OfSlot(roots, s)) \cup {[slot |-> s, root |-> head]}
    /\ msgs' = msgs \cup {Message(s, v, head) : v \in Healthy}
    /\ A \in BOOLEAN
    /\ (\E x \in OfSlot(sel, s) : x.v \in Healthy) => A
    /\ A => OfSlot(sel, s) # {}
    /\ aggJobs' = IF A THEN aggJobs \cup {s} ELSE aggJobs
    /\ UNCHANGED <<now, fork, shape, target, head, member, started, sched, prepJobs, prepared, hsig, sel, contribs>>

Remembered(s) == (CHOOSE x \in OfSlot(roots, s) : TRUE).root

Contribution(x) == [slot |-> x.slot, v |-> x.v, sub |-> x.sub, root |-> Remembered(x.slot)]

\* C: the contributions submitted; those of healthy selected members are obligatory, those of
\* selected members whose message signature failed are left open
FireAggregate(s, C) ==
    /\ s \in aggJobs
    /\ aggJobs' = aggJobs \ {s}
    /\ {Contribution(x) : x \in {y \in OfSlot(sel, s) : y.v \in Healthy}} \subseteq C
    /\ C \subseteq {Contribution(x) : x \in OfSlot(sel, s)}
    /\ contribs' = contribs \cup C
    /\ UNCHANGED <<now, fork, shape, target, head, member, started, sched, prepJobs, msgJobs, prepared, hsig, sel, roots, msgs>>

\* (a member without an account has no signature that could fail)
MemberSpace == {m \in [idx : IndexSets, acct : BOOLEAN, zero : BOOLEAN] : m.acct \/ ~m.zero}

Next ==
    \/ \E v \in Members : \E m \in MemberSpace : AddMember(v, m)
    \/ \E t \in Nows : Advance(t)
    \/ \E r \in Roots : NewHead(r)
    \/ \E e \in ScheduleEpochs : \E nc \in BOOLEAN :
          \E W \in SUBSET Window(PeriodOf(e), now) : Schedule(e, nc, prepJobs \cup W)
    \/ \E s \in prepJobs : \E H \in [Requests -> HVals] : FirePrepare(s, H)
    \/ \E s \in msgJobs : \E A \in BOOLEAN : FireMessage(s, A)
    \/ \E s \in aggJobs : \E C \in SUBSET {Contribution(x) : x \in OfSlot(sel, s)} : FireAggregate(s, C)

Spec == Init /\ [][Next]_vars

-----------------------------------------------------------------------------
TypeOK ==
    /\ now \in Nows /\ fork \in Forks /\ shape \in Shapes /\ target \in Targets /\ head \in Roots
    /\ \A sh \in Shapes : \A t \in Targets : sh[1] % sh[2] = 0 /\ HMod % Max(1, (sh[1] \div sh[2]) \div t) = 0
    /\ \A x \in hsig : x.h \in 0 .. (HMod - 1)

Pending == prepJobs \cup prepared

\* C15: a message job chain exists for every slot from the one before the period's first slot
\* (or from now, if later) to the one before the period's last slot ...
EverySlotOfWindow == \A c \in sched : Required(c) \subseteq Pending

\* ... and for no other slot (slots before the fork, or of another period)
OnlySlotsOfWindow == \A s \in Pending : \E c \in sched : s \in Allowed(c)

\* a message job is set up only by the slot's prepare job, an aggregation job only after its messages
JobOrder ==
    /\ msgJobs \subseteq prepared
    /\ \A s \in aggJobs : OfSlot(roots, s) # {}

\* C15: each message is signed over the head root obtained for that slot, by its member, for the slot's epoch
SignedOverObtainedRoot ==
    \A m \in msgs : /\ \E r \in OfSlot(roots, m.slot) : TRUE
                    /\ m.sigroot = m.root /\ m.sigv = m.v /\ m.sigepoch = Epoch(m.slot)
                    /\ m.v \in Healthy

\* C15: a member without an account, or whose signature is zero, removes only its own messages
\* and contributions
MembersIndependent ==
    /\ \A r \in roots : \A v \in Healthy : \E m \in msgs : m.slot = r.slot /\ m.v = v /\ m.root = r.root
    /\ \A r \in roots : (\E x \in OfSlot(sel, r.slot) : x.v \in Healthy) =>
            \/ r.slot \in aggJobs
            \/ \A x \in OfSlot(sel, r.slot) : x.v \in Healthy => Contribution(x) \in contribs

\* C15: contribution aggregators are selected per subcommittee by the specification's rule, among
\* the members with an account, and contributions use the root remembered for the slot
AggregatorRuleExact ==
    /\ \A x \in hsig : x.v \in WithAccount /\ \E i \in member[x.v].idx : SubOf(i) = x.sub
    /\ \A s \in prepared : \A v \in WithAccount : \A i \in member[v].idx :
            \E x \in OfSlot(hsig, s) : x.v = v /\ x.sub = SubOf(i)
    /\ \A x \in hsig : IsAggregator(x.h) <=> [slot |-> x.slot, v |-> x.v, sub |-> x.sub] \in sel
    /\ \A y \in sel : \E x \in hsig : x.slot = y.slot /\ x.v = y.v /\ x.sub = y.sub
    /\ \A c \in contribs : [slot |-> c.slot, v |-> c.v, sub |-> c.sub] \in sel
                           /\ \E r \in roots : r.slot = c.slot
=============================================================================
