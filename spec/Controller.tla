----------------------------- MODULE Controller -----------------------------
(* Vouch's controller (services/controller/standard): which jobs exist, for which slot, at      *)
(* which time and for which validators, from start-up through epoch ticks, reorgs, job          *)
(* execution and restarts.  Property C03.                                                       *)
(*                                                                                              *)
(* State.  now: the clock (slot).  depVer[b]: version of the duty-dependent root at epoch       *)
(* boundary b (the last block before epoch b); a reorg bumps it.  oracle: what a beacon node    *)
(* returns - attester duties of epoch e are a function of depVer[e-1], proposer duties of epoch *)
(* e of depVer[e], sync committee duties of period p of depVer[(p-1)*EP].  jobs: the abstract   *)
(* job table of the scheduler, name = <<kind, n>> |-> [time, vals, ver].  tasks: goroutines of  *)
(* the controller that are under way (fetching duties, cancelling, scheduling).  done: bag of   *)
(* executed duties.  seen: roots of the last head event.                                        *)
(*                                                                                              *)
(* Actions (one per entry point / critical section of the Go code):                             *)
(*   Start(w)          New(): construction at any instant (w: waited for genesis); also restart *)
(*   Crash             the process dies: volatile state is lost, executed duties are history    *)
(*   Advance           the clock moves to the next slot                                         *)
(*   Reorg(b)          environment: the chain reorganises below boundary b                      *)
(*   EpochTick         epochTicker (periodic job), guarded to run once per epoch                *)
(*   Fire(nm, up)      the scheduler starts job nm at its time (prepare-for-epoch, attest,      *)
(*                     propose, propose-early check, sync prepare, sync message)                *)
(*   HeadEvent         HandleHeadEvent for the current slot with the roots in force: starts the *)
(*                     refresh goroutines and goes on to the fast track                         *)
(*   Fetch(t)          a schedule* goroutine obtains duties from the beacon node                *)
(*   Filter(t)         ... reads the clock and keeps the duties of the epoch not yet passed     *)
(*   SchedOne(t, d)    ... one ScheduleJob call (each is its own goroutine in the code)         *)
(*   refresh*DutiesFor*: a process of its own whose steps are the interface calls the code      *)
(*   makes, each a separate action so that job starts can fall between any two of them:         *)
(*     DoCheck(t)      JobExists("Prepare for epoch") - attester refresh only                   *)
(*     DoCancel(t)     one CancelJob / CancelJobIfExists, its result remembered                 *)
(*     DoAccounts(t)   the validating-accounts lookup (before or after the cancel loop: the     *)
(*                     property does not care); when both are done the current slot is          *)
(*                     rescheduled only if ITS cancel succeeded (the job had not started)       *)
(*     then Fetch / Filter / SchedOne as for every schedule* goroutine                          *)
(*   fastTrackJobs of a head event is a process too (it runs beside the refreshes the same      *)
(*   event started): DoFtCheck(t) = JobExists, DoFtRun(t) = RunJobIfExists, attestations then   *)
(*   sync committee messages                                                                    *)
(*   Hold(k, on)       environment: replies / calls of kind k are delayed from now on: duty     *)
(*                     replies of the beacon node ("att", "prop": the reply is computed when    *)
(*                     asked and delivered later), the accounts provider ("acct"), scheduler    *)
(*                     calls ("cancel", "sched", "run": the call takes effect when released)    *)
(*   Block(t)          a call arrives at a delaying interface and waits                         *)
(*   Release(t) / ReleaseSched(t, d)   environment: a delayed reply / call goes through         *)
(*   SetAccounts(a)    environment: from now on the accounts provider answers a - a set of      *)
(*                     active validators (possibly empty) or an error.  Every lookup of the     *)
(*                     controller (New, epoch ticker, prepare-for-epoch, the three refreshes)   *)
(*                     reads the answer in force when it is made (a delayed lookup: when it is  *)
(*                     released), so the answer is an input of each CALL, not of the instance.  *)
(*                                                                                              *)
(* The instance and its history.  A behaviour between Start and Crash is the history of ONE     *)
(* controller instance: a sequence of calls (ticker runs, prepare-for-epoch runs, head events   *)
(* with the refreshes they start, job starts) with per-call inputs (clock, roots, the node's    *)
(* duties for the version in force, the accounts answer).  What the property makes persistent   *)
(* on the instance is named Persistent below: the job table, the roots of the last head event,  *)
(* the ticker's once-per-epoch guard, and the instant of the start-up.  The outcome of a call - *)
(* which jobs it removes and sets up, and THAT IT ENDS - depends on its own inputs and on       *)
(* Persistent only; in particular not on which branch an earlier call left through (a lookup    *)
(* that failed, an empty set of validators, nothing to schedule).  RefreshCompletes states the  *)
(* second half: a goroutine of the controller that is not waiting at an interface of the        *)
(* environment can take its next step.  Deviation names control designs that are right on every *)
(* fresh instance and wrong over histories (TLC must reject them: the check runs them as a      *)
(* self-test): "LeakPropLock" = the proposer refresh takes a lock on the instance and gives it  *)
(* back where scheduleProposals returns, not where the refresh returns early.                   *)
EXTENDS Integers, FiniteSets, Sequences, TLC, ChainTime

CONSTANTS MaxSlot,      \* the clock stops here
          MaxVer,       \* bound on reorgs per boundary
          MaxReorgs,    \* bound on reorgs per behaviour
          MaxCrashes,
          Gates,        \* interfaces whose replies / calls may be delayed across other steps (subset of GateKinds)
          Interleave,   \* TRUE: the scheduler's timer may start a job between any two steps of the controller's goroutines
          Cfgs,         \* chain / controller configurations to start from
          OraclesFor(_),\* duty oracles to start from, per configuration
          MaxAccts,     \* bound on the number of times the accounts provider changes its answer
          AnswersFor(_),\* answers the accounts provider may change to, per configuration
          Deviation     \* named control designs (see above); {} = the intended design

VARIABLES cfg,      \* configuration (never changes): [p slots per epoch, d slot duration (s), ep epochs per sync
                    \* committee period, prep syncCommitteePreparationEpochs, fork Altair fork epoch, ft fast-track
                    \* on head events, attd / propd / syncd configured delays (s), vals validators with an account]
          oracle,   \* [att, prop, sync] sets of duty records
          now, depVer, up, jobs, tasks, done, seen,
          latestTick,   \* latestEpochRan of the epoch ticker
          tickDue,      \* the periodic epoch ticker job is due
          startedAt,    \* [slot, waited] of the last Start
          fetched,      \* <<kind, key>> |-> version used by the latest fetch
          shown,        \* <<kind, key>> |-> version that a head event has shown to be in force
          hold,         \* interfaces that currently delay (subset of Gates)
          acct,         \* what the accounts provider answers now: [err, vals]
          lk,           \* Deviation only: the lock a proposer refresh holds ("free", "held", "leaked" = its holder has returned)
          nReorg, nCrash, nSpur, nAcct

vars == <<cfg, oracle, now, depVer, up, jobs, tasks, done, seen, latestTick, tickDue, startedAt,
          fetched, shown, hold, acct, lk, nReorg, nCrash, nSpur, nAcct>>

\* the state the property makes persistent on a controller instance (everything else a call leaves behind - goroutines
\* that have returned, locks, memos - must not influence a later call)
Persistent == <<jobs, seen, latestTick, startedAt>>

P == cfg.p
D == cfg.d
EP == cfg.ep
Prep == cfg.prep
AttDelay == cfg.attd
PropDelay == cfg.propd
SyncDelay == cfg.syncd
Validators == cfg.vals
C == [g |-> 0, d |-> D, p |-> P]
Epoch(s) == SlotToEpoch(C, s)
First(e) == FirstSlotOfEpoch(C, e)
Last(e) == LastSlotOfEpoch(C, e)
SlotStart(s) == StartOfSlot(C, s)
MaxEpoch == MaxSlot       \* a bound on epoch numbers good for every P
Max(a, b) == IF a > b THEN a ELSE b
Min(a, b) == IF a < b THEN a ELSE b

Empty == [x \in {} |-> 0]
Put(f, k, v) == [x \in (DOMAIN f) \cup {k} |-> IF x = k THEN v ELSE f[x]]
Drop(f, K) == [x \in (DOMAIN f) \ K |-> f[x]]
Get(f, k, dflt) == IF k \in DOMAIN f THEN f[k] ELSE dflt
BagAdd(b, x) == Put(b, x, Get(b, x, 0) + 1)

-----------------------------------------------------------------------------
(* Duty oracle.  att/prop records: [e, ver, v, slot]; sync records: [p, ver, v].                *)
Period(e) == e \div EP
PeriodStart(p) == Max(p * EP, cfg.fork)                 \* firstEpochOfSyncPeriod: clamped to the fork
VerOf(b) == IF b < 0 THEN 0 ELSE depVer[b]
AttVer(e) == VerOf(e - 1)
PropVer(e) == VerOf(e)
SyncVer(p) == VerOf((p - 1) * EP)
RootOf(b) == <<b, VerOf(b)>>
KeyVer(k, key) == CASE k = "att" -> AttVer(key) [] k = "prop" -> PropVer(key) [] k = "sync" -> SyncVer(key)

\* answers of the accounts provider: an error, or the validators that are active (any subset of those with an account)
Answer(err, vs) == [err |-> err, vals |-> vs]
AllAnswers(c) == {Answer(TRUE, {})} \cup {Answer(FALSE, S) : S \in SUBSET c.vals}
ActiveNow == IF acct.err THEN {} ELSE acct.vals      \* the indices a lookup made now yields (none when it fails)

\* what the node returns now
AttReply(e) == {[slot |-> r.slot, v |-> r.v] : r \in {x \in oracle.att : x.e = e /\ x.ver = AttVer(e)}}
PropReply(e) == {[slot |-> r.slot, v |-> r.v] : r \in {x \in oracle.prop : x.e = e /\ x.ver = PropVer(e)}}
SyncReply(p) == {r.v : r \in {x \in oracle.sync : x.p = p /\ x.ver = SyncVer(p)}}

\* per-slot merge (attester.MergeDuties): slot |-> validators, only slots of the requested epoch
InEpoch(e, s) == First(e) <= s /\ s <= Last(e)
Merge(e, reply) == {[slot |-> s, vals |-> {r.v : r \in {x \in reply : x.slot = s}}] :
                        s \in {r.slot : r \in {x \in reply : InEpoch(e, x.slot)}}}

\* not yet passed: strictly later, or the current slot unless told otherwise
Survives(s, nc) == s > now \/ (s = now /\ ~nc)

(* Sync committee window of period p: a message in every slot from the one before the period's  *)
(* first slot (or from now, if later) to the one before its last slot.                          *)
SyncLo(p) == Max(First(PeriodStart(p)) - 1, now)
SyncHi(p) == First((p + 1) * EP) - 2
SyncWindow(p, nc) == {s \in SyncLo(p)..SyncHi(p) : Survives(s, nc)}

-----------------------------------------------------------------------------
(* Jobs. *)
DutyKinds == {"att", "prop", "syncprep", "syncmsg"}
JobTime(k, n) ==
    CASE k = "att" -> SlotStart(n) + AttDelay
      [] k = "prop" -> SlotStart(n) + PropDelay
      [] k = "early" -> SlotStart(n)
      [] k = "syncprep" -> SlotStart(n) - (D * 6) \div 4
      [] k = "syncmsg" -> SlotStart(n) + SyncDelay
\* prepare-for-epoch: the property does not say when inside the epoch; the code uses mid-epoch
PrepTime(e) == StartOfEpoch(C, e - 1) + (P * D + D) \div 2

Due(nm) == jobs[nm].time < SlotStart(now + 1)
Earliest(nm) == \A o \in DOMAIN jobs : jobs[o].time >= jobs[nm].time

(* A task is one goroutine of the controller (for the "sched" stage: the goroutines it has      *)
(* spawned, one per duty).  id: tasks are individuals (two refreshes of one epoch under way at  *)
(* the same point are two).  pos >= 0: a refresh, pos = index of the next name to cancel (0: the*)
(* cancel loop has not begun), can = slots whose CancelJob succeeded, acd = accounts asked for. *)
(* blk: the call the task is about to make waits at a delaying interface.                       *)
Task(k, key, nc, st) == [id |-> -1, k |-> k, key |-> key, nc |-> nc, st |-> st, ver |-> -1, duties |-> {},
                         pos |-> -1, can |-> {}, acd |-> FALSE, blk |-> FALSE, av |-> {}]
\* av: the validator indices the goroutine asks the node about (the answer of ITS accounts lookup).  A schedule* call
\* with no indices returns at once: such goroutines are not spawned.
WithAv(ts, av) == IF av = {} THEN <<>> ELSE [i \in 1..Len(ts) |-> [ts[i] EXCEPT !.av = av]]
RefreshTask(k, key) == [Task(k, key, FALSE, CASE k = "att" -> "check" [] k = "prop" -> "begin" [] k = "sync" -> "cancel")
                            EXCEPT !.pos = IF k = "sync" THEN 1 ELSE 0]
IsRefresh(t) == t.pos >= 0
FreeId(ts) == CHOOSE i \in 0..Cardinality(ts) : \A t \in ts : t.id # i
RECURSIVE Spawn(_, _)
Spawn(ts, new) == IF new = <<>> THEN ts ELSE Spawn(ts \cup {[Head(new) EXCEPT !.id = FreeId(ts)]}, Tail(new))

GateKinds == {"att", "prop", "acct", "cancel", "sched", "run"}
Quiescent == tasks = {}
\* a delayed reply / call (a goroutine waiting at one of the scripted interfaces) may stay
\* Deviation "LeakPropLock": a proposer refresh waits for the lock at its first step
LockWait(t) == "LeakPropLock" \in Deviation /\ t.st = "begin" /\ t.k = "prop" /\ lk # "free"
\* ... which is waiting for another goroutine of the controller, fine as long as that one is alive
Parked(t) == t.st = "held" \/ t.blk \/ (t.st = "sched" /\ \A d \in t.duties : d.blk) \/ (LockWait(t) /\ lk = "held")
Settled == \A t \in tasks : Parked(t)

-----------------------------------------------------------------------------
Init ==
    /\ cfg \in Cfgs
    /\ oracle \in OraclesFor(cfg)
    /\ now \in 0..MaxSlot
    /\ depVer = [b \in 0..(MaxEpoch + 1) |-> 0]
    /\ up = FALSE
    /\ jobs = Empty /\ tasks = {} /\ done = Empty
    /\ seen = [has |-> FALSE, e |-> 0, prev |-> <<0, 0>>, cur |-> <<0, 0>>]
    /\ latestTick = -1 /\ tickDue = FALSE
    /\ startedAt = [slot |-> 0, waited |-> TRUE]
    /\ fetched = Empty /\ shown = Empty
    /\ hold = {}
    /\ acct \in {Answer(FALSE, cfg.vals)} \cup (IF MaxAccts > 0 THEN AnswersFor(cfg) ELSE {})
    /\ lk = "free"
    /\ nReorg = 0 /\ nCrash = 0 /\ nSpur = 0 /\ nAcct = 0

SyncTasksAtStart(e) ==
    IF e < cfg.fork THEN <<>>
    ELSE <<Task("sync", Period(e), TRUE, "fetch")>>
         \o (IF PeriodStart(Period(e) + 1) - e <= Prep THEN <<Task("sync", Period(e) + 1, TRUE, "fetch")>> ELSE <<>>)

(* New(): duties of the rest of this epoch and of the next; only strictly later slots unless we *)
(* waited for genesis.  New() fails when an accounts lookup fails (no instance: not explored).  *)
Start(w) ==
    /\ ~up
    /\ ~acct.err
    /\ w => (now = 0 /\ done = Empty)
    /\ up' = TRUE
    /\ LET e == Epoch(now) IN
        tasks' = Spawn({}, WithAv(<<Task("prop", e, ~w, "fetch"), Task("att", e, ~w, "fetch"), Task("att", e + 1, TRUE, "fetch")>>
                                  \o SyncTasksAtStart(e), ActiveNow))
    /\ jobs' = Empty
    /\ seen' = [has |-> FALSE, e |-> 0, prev |-> <<0, 0>>, cur |-> <<0, 0>>]
    /\ latestTick' = -1 /\ tickDue' = FALSE
    /\ startedAt' = [slot |-> now, waited |-> w]
    /\ fetched' = Empty /\ shown' = Empty /\ hold' = {} /\ lk' = "free"
    /\ UNCHANGED <<cfg, oracle, now, depVer, done, acct, nReorg, nCrash, nSpur, nAcct>>

Crash ==
    /\ up /\ Quiescent
    /\ nCrash < MaxCrashes
    /\ nCrash' = nCrash + 1
    /\ up' = FALSE /\ jobs' = Empty /\ tasks' = {} /\ tickDue' = FALSE /\ lk' = "free"
    /\ UNCHANGED <<cfg, oracle, now, depVer, done, seen, latestTick, startedAt, fetched, shown, nReorg, nSpur, hold, acct, nAcct>>

\* Env_TimelyScheduler: the clock does not pass a job's slot without the job having been started
Timely == up => \A nm \in DOMAIN jobs : ~Due(nm)
AdvanceStep ==
    /\ now < MaxSlot
    /\ up => (Settled /\ ~tickDue)
    /\ now' = now + 1
    /\ tickDue' = (up /\ now + 1 = First(Epoch(now + 1)))
    /\ UNCHANGED <<cfg, oracle, depVer, up, jobs, tasks, done, seen, latestTick, startedAt, fetched, shown, nReorg, nCrash, nSpur, hold, acct, lk, nAcct>>
\* Env_SyncRootShallow, second half: a reorganisation of the root that fixes the next sync committee is shown
\* by a head event before the period's first epoch is over (the controller looks at that root only then)
SyncRootShown ==
    LET e == Epoch(now) IN
    (up /\ Epoch(now + 1) # e /\ e % EP = 0 /\ seen.has /\ seen.e = e) => seen.cur = RootOf(e)
Advance == Timely /\ SyncRootShown /\ AdvanceStep

\* Env_GenesisRootsFixed: the roots of boundaries 0 and below are the genesis root.
\* A reorg reaches at most the previous epoch's boundary.
\* Env_SyncRootShallow: the root that fixes the next sync committee (boundary of a period's first
\* epoch) is not reorganised once that epoch is over - the controller, like the property, ties the
\* sync committee duties to the current dependent root seen in the first epoch of the period.
Reorg(b) ==
    /\ b >= 1 /\ b \in {Epoch(now) - 1, Epoch(now)}
    /\ (b % EP = 0) => Epoch(now) = b
    /\ nReorg < MaxReorgs /\ depVer[b] < MaxVer
    /\ up => Settled
    /\ depVer' = [depVer EXCEPT ![b] = @ + 1]
    /\ nReorg' = nReorg + 1
    /\ UNCHANGED <<cfg, oracle, now, up, jobs, tasks, done, seen, latestTick, tickDue, startedAt, fetched, shown, nCrash, nSpur, hold, acct, lk, nAcct>>

\* the accounts provider changes its answer (validators activate / exit, the account manager fails / recovers)
SetAccountsStep(a) ==
    /\ up => Settled
    /\ acct' = a
    /\ UNCHANGED <<cfg, oracle, now, depVer, up, jobs, tasks, done, seen, latestTick, tickDue, startedAt, fetched, shown, hold, lk, nReorg, nCrash, nSpur>>
SetAccounts(a) ==
    /\ a \in AnswersFor(cfg) /\ a # acct
    /\ nAcct < MaxAccts /\ nAcct' = nAcct + 1
    /\ SetAccountsStep(a)

-----------------------------------------------------------------------------
(* The epoch ticker: proposals of this epoch, sync committee periods at the fork epoch and Prep *)
(* epochs before a period starts, and the prepare-for-epoch job for the next epoch's attesters. *)
SyncTasksAtTick(e) ==
    (IF e = cfg.fork
     THEN <<Task("sync", Period(e), FALSE, "fetch")>>
          \o (IF (Period(e) + 1) * EP - e <= Prep THEN <<Task("sync", Period(e) + 1, FALSE, "fetch")>> ELSE <<>>)
     ELSE <<>>)
    \o (IF e >= cfg.fork /\ e % EP = EP - Prep THEN <<Task("sync", Period(e) + 1, FALSE, "fetch")>> ELSE <<>>)

(* The ticker marks the epoch as run, then obtains the accounts: when that fails it gives up for*)
(* this epoch (nothing is set up, not even the prepare-for-epoch job); with no active validator *)
(* it goes on (there may be some in the next epoch).                                            *)
TickBody(e) ==
    /\ latestTick' = e
    /\ IF acct.err THEN UNCHANGED <<tasks, jobs>>
       ELSE /\ tasks' = Spawn(tasks, WithAv(<<Task("prop", e, FALSE, "fetch")>> \o SyncTasksAtTick(e), ActiveNow))
            /\ jobs' = IF <<"prepepoch", e + 1>> \in DOMAIN jobs THEN jobs
                       ELSE Put(jobs, <<"prepepoch", e + 1>>, [time |-> PrepTime(e + 1), vals |-> {}, ver |-> 0, av |-> {}])

EpochTick ==
    /\ up /\ Settled
    /\ "acct" \notin hold      \* the ticker obtains the accounts itself: explored with a prompt accounts provider only
    /\ \/ tickDue /\ nSpur' = nSpur
       \/ ~tickDue /\ latestTick = Epoch(now) /\ nSpur < 1 /\ nSpur' = nSpur + 1     \* spurious second run
    /\ tickDue' = FALSE
    /\ IF latestTick >= Epoch(now)
       THEN UNCHANGED <<latestTick, tasks, jobs>>
       ELSE TickBody(Epoch(now))
    /\ UNCHANGED <<cfg, oracle, now, depVer, up, done, seen, startedAt, fetched, shown, nReorg, nCrash, hold, acct, lk, nAcct>>

-----------------------------------------------------------------------------
(* schedule{Attestations,Proposals,SyncCommitteeMessages}: fetch, filter, one ScheduleJob each. *)
Others0 == <<cfg, oracle, now, depVer, up, seen, latestTick, tickDue, startedAt, shown, nReorg, nCrash, nSpur, hold, acct, nAcct>>
Others == <<Others0, lk>>
Swap(t, S) == tasks' = (tasks \ {t}) \cup S

Fetch(t) ==
    /\ t \in tasks /\ t.st = "fetch"
    /\ LET ver == KeyVer(t.k, t.key)       \* the node answers for the indices asked about
           reply == CASE t.k = "att" -> Merge(t.key, {r \in AttReply(t.key) : r.v \in t.av})
                      [] t.k = "prop" -> {[slot |-> r.slot, vals |-> {r.v}] : r \in {x \in PropReply(t.key) : InEpoch(t.key, x.slot) /\ x.v \in t.av}}
                      [] t.k = "sync" -> IF SyncReply(t.key) \cap t.av = {} THEN {} ELSE {[slot |-> -1, vals |-> SyncReply(t.key) \cap t.av]}
       IN /\ Swap(t, {[t EXCEPT !.st = IF t.k \in hold THEN "held" ELSE "filter", !.ver = ver, !.duties = reply]})
          /\ fetched' = Put(fetched, <<t.k, t.key>>, [ver |-> ver, av |-> t.av])
    /\ UNCHANGED <<jobs, done>> /\ UNCHANGED Others

\* the job a duty's goroutine asks the scheduler for first
FirstJob(k) == CASE k = "att" -> "att" [] k = "prop" -> (IF PropDelay > 0 THEN "early" ELSE "prop") [] k = "sync" -> "syncprep"

Filter(t) ==
    /\ t \in tasks /\ t.st = "filter"
    /\ LET kept == IF t.k = "sync"
                   THEN IF t.duties = {} THEN {}
                        ELSE {[slot |-> s, vals |-> (CHOOSE d \in t.duties : TRUE).vals] : s \in SyncWindow(t.key, t.nc)}
                   ELSE {d \in t.duties : Survives(d.slot, t.nc)}
           calls == {[slot |-> d.slot, vals |-> d.vals, jk |-> FirstJob(t.k), blk |-> FALSE] : d \in kept}
       IN Swap(t, IF kept = {} THEN {} ELSE {[t EXCEPT !.st = "sched", !.duties = calls]})
    \* (Deviation: scheduleProposals has returned into the refresh, which gives the lock back)
    /\ lk' = IF IsRefresh(t) /\ t.k = "prop" /\ lk = "held" THEN "free" ELSE lk
    /\ UNCHANGED <<jobs, done, fetched>> /\ UNCHANGED Others0

\* a name is claimed once: ScheduleJob on an existing name fails and changes nothing
AddJob(js, k, n, vals, ver, av) ==
    IF <<k, n>> \in DOMAIN js THEN js ELSE Put(js, <<k, n>>, [time |-> JobTime(k, n), vals |-> vals, ver |-> ver, av |-> av])

\* one ScheduleJob call of a duty's goroutine (a proposer duty asks for the early job, then for the proposal)
SchedOne(t, d) ==
    /\ t \in tasks /\ t.st = "sched" /\ d \in t.duties
    /\ jobs' = AddJob(jobs, d.jk, d.slot, d.vals, t.ver, t.av)
    /\ LET rest == (t.duties \ {d}) \cup (IF d.jk = "early" THEN {[d EXCEPT !.jk = "prop", !.blk = FALSE]} ELSE {})
       IN Swap(t, IF rest = {} THEN {} ELSE {[t EXCEPT !.duties = rest]})
    /\ UNCHANGED <<done, fetched>> /\ UNCHANGED Others

-----------------------------------------------------------------------------
(* refresh*DutiesFor*: cancel the jobs of the epoch / period one by one, obtain the accounts,   *)
(* then fetch and schedule again.                                                               *)
CancelSeq(t) ==     \* the names in the order the code asks for them
    CASE t.k = "att" -> [i \in 1..P |-> <<"att", First(t.key) + i - 1>>]
      [] t.k = "prop" -> [i \in 1..(2 * P) |-> <<IF i % 2 = 1 THEN "early" ELSE "prop", First(t.key) + (i - 1) \div 2>>]
      [] t.k = "sync" -> LET lo == First(PeriodStart(t.key)) - 1
                             n == Max(SyncHi(t.key) - lo + 1, 0)
                         IN [i \in 1..(2 * n) |-> <<IF i % 2 = 1 THEN "syncprep" ELSE "syncmsg", lo + (i - 1) \div 2>>]
CancelNames(t) == {CancelSeq(t)[i] : i \in 1..Len(CancelSeq(t))}

(* Cancelling and the accounts are behind it: the refresh goes on to fetch and reschedule.      *)
(* attester: the current slot (clock read now) is rescheduled only if the CancelJob for its job *)
(* succeeded - a job that had started (timer, fast track) is beyond cancelling and must not be  *)
(* set up again; proposer: never (Env_HeadImpliesBlock); sync: the current slot may be scheduled*)
Decide(t) ==
    [t EXCEPT !.blk = FALSE, !.st = "fetch", !.acd = TRUE, !.pos = Len(CancelSeq(t)) + 1,
              !.nc = CASE t.k = "att" -> now \notin t.can
                       [] t.k = "prop" -> TRUE
                       [] t.k = "sync" -> FALSE]
(* ... unless its accounts lookup failed or named no active validator: then the refresh is over *)
(* (it has cancelled the jobs made for the superseded root; there is nothing it could ask the   *)
(* node about).  It RETURNS: nothing of it stays behind on the instance.                        *)
After(t) == IF t.av = {} THEN {} ELSE {Decide(t)}
\* the cancel loop begins (or, with nothing to cancel, is over)
BeginCancel(t) ==
    IF Len(CancelSeq(t)) > 0 THEN {[t EXCEPT !.blk = FALSE, !.st = "cancel", !.pos = 1]}
    ELSE IF t.acd THEN After(t) ELSE {[t EXCEPT !.blk = FALSE, !.st = "accounts", !.pos = 1]}
(* The refresh t goes on as S; S = {}: it has returned without obtaining duties - the reply     *)
(* last obtained for its epoch / period was for a root that is gone, so there is no obtained    *)
(* duty left to speak of.  (Deviation: a lock it holds is never given back.)                    *)
Cont(t, S) ==
    /\ Swap(t, S)
    /\ fetched' = IF S = {} THEN Drop(fetched, {<<t.k, t.key>>}) ELSE fetched
    /\ lk' = IF S = {} /\ t.k = "prop" /\ lk = "held" THEN "leaked" ELSE lk

\* attester refresh: JobExists("Prepare for epoch"): the epoch is not prepared yet, nothing to refresh
DoCheck(t) ==
    /\ t \in tasks /\ t.st = "check"
    /\ IF <<"prepepoch", t.key>> \in DOMAIN jobs
       THEN Swap(t, {}) /\ UNCHANGED <<fetched, lk>>
       ELSE Cont(t, BeginCancel(t)) \/ Cont(t, {[t EXCEPT !.st = "accounts"]})
    /\ UNCHANGED <<jobs, done>> /\ UNCHANGED Others0

\* proposer refresh: which of the two comes first is left open
DoBegin(t) ==
    /\ t \in tasks /\ t.st = "begin"
    /\ ~LockWait(t)
    /\ Swap(t, BeginCancel(t)) \/ Swap(t, {[t EXCEPT !.st = "accounts"]})
    /\ lk' = IF "LeakPropLock" \in Deviation /\ t.k = "prop" THEN "held" ELSE lk
    /\ UNCHANGED <<jobs, done, fetched>> /\ UNCHANGED Others0

\* one CancelJob / CancelJobIfExists
DoCancel(t) ==
    /\ t \in tasks /\ t.st = "cancel"
    /\ LET seq == CancelSeq(t)
           nm == seq[t.pos]
           hit == nm \in DOMAIN jobs
           t1 == [t EXCEPT !.blk = FALSE, !.can = IF hit /\ t.k = "att" THEN @ \cup {nm[2]} ELSE @]
       IN /\ jobs' = IF hit THEN Drop(jobs, {nm}) ELSE jobs
          /\ Cont(t, IF t.pos < Len(seq) THEN {[t1 EXCEPT !.pos = @ + 1]}
                     ELSE IF t.acd THEN After(t1)
                     ELSE {[t1 EXCEPT !.st = "accounts", !.pos = @ + 1]})
    /\ UNCHANGED done /\ UNCHANGED Others0

\* the accounts provider answers the refresh's lookup (attester / proposer: the validating accounts of the epoch;
\* sync committee: the eligible accounts): the answer in force now
DoAccounts(t) ==
    /\ t \in tasks /\ t.st = "accounts"
    /\ LET t1 == [t EXCEPT !.acd = TRUE, !.av = ActiveNow]
       IN Cont(t, IF t.pos = 0 THEN BeginCancel(t1) ELSE After(t1))
    /\ UNCHANGED <<jobs, done>> /\ UNCHANGED Others0

RunNow(js, dn, nm) ==       \* RunJobIfExists on a duty job: <<jobs', done'>>
    IF nm \in DOMAIN js
    THEN <<Drop(js, {nm}), BagAdd(dn, [k |-> nm[1], n |-> nm[2], vals |-> js[nm].vals])>>
    ELSE <<js, dn>>

(* fastTrackJobs(slot) of a head event: JobExists then RunJobIfExists, for the slot's           *)
(* attestations and then for its sync committee messages.                                       *)
FtName(t) == <<IF t.st \in {"ftatt", "ftattrun"} THEN "att" ELSE "syncmsg", t.key>>
DoFtCheck(t) ==
    /\ t \in tasks /\ t.st \in {"ftatt", "ftsync"}
    /\ Swap(t, IF FtName(t) \in DOMAIN jobs THEN {[t EXCEPT !.st = IF t.st = "ftatt" THEN "ftattrun" ELSE "ftsyncrun"]}
               ELSE IF t.st = "ftatt" THEN {[t EXCEPT !.st = "ftsync"]} ELSE {})
    /\ UNCHANGED <<jobs, done, fetched>> /\ UNCHANGED Others
DoFtRun(t) ==
    /\ t \in tasks /\ t.st \in {"ftattrun", "ftsyncrun"}
    /\ LET r == RunNow(jobs, done, FtName(t))
       IN jobs' = r[1] /\ done' = r[2]
    /\ Swap(t, IF t.st = "ftattrun" THEN {[t EXCEPT !.blk = FALSE, !.st = "ftsync"]} ELSE {})
    /\ UNCHANGED fetched /\ UNCHANGED Others

(* Delaying interfaces.  The call a task is about to make goes to the accounts provider ("acct":*)
(* ValidatingAccountsForEpoch, i.e. attester and proposer refreshes) or to the scheduler        *)
(* ("cancel", "run"; "sched" for the ScheduleJob of a duty goroutine).  While the interface is  *)
(* delaying, the call waits (Block) until the environment lets it through (Release).            *)
GateOf(t) == CASE t.st = "accounts" /\ t.k \in {"att", "prop"} -> "acct"
               [] t.st = "cancel" -> "cancel"
               [] t.st \in {"ftattrun", "ftsyncrun"} -> "run"
               [] OTHER -> "none"
GatedStep(t) == DoCancel(t) \/ DoAccounts(t) \/ DoFtRun(t)
FreeStep(t) == DoCheck(t) \/ DoBegin(t) \/ DoFtCheck(t) \/ Fetch(t) \/ Filter(t)

Block(t) ==
    /\ t \in tasks /\ ~t.blk /\ GateOf(t) \in hold
    /\ Swap(t, {[t EXCEPT !.blk = TRUE]})
    /\ UNCHANGED <<jobs, done, fetched>> /\ UNCHANGED Others
BlockSched(t, d) ==
    /\ t \in tasks /\ t.st = "sched" /\ d \in t.duties /\ ~d.blk /\ "sched" \in hold
    /\ Swap(t, {[t EXCEPT !.duties = (@ \ {d}) \cup {[d EXCEPT !.blk = TRUE]}]})
    /\ UNCHANGED <<jobs, done, fetched>> /\ UNCHANGED Others

\* the calls of a task that wait at a delaying interface, as <<interface, epoch / slot, version, job kind>>
ParkedCalls(t) ==
    IF t.st = "held" THEN {<<t.k, t.key, t.ver, "">>}
    ELSE IF t.st = "sched" THEN {<<"sched", d.slot, 0, d.jk>> : d \in {x \in t.duties : x.blk}}
    ELSE IF ~t.blk THEN {}
    ELSE CASE GateOf(t) = "acct" -> {<<"acct", t.key, 0, "">>}
           [] GateOf(t) = "cancel" -> {<<"cancel", CancelSeq(t)[t.pos][2], 0, CancelSeq(t)[t.pos][1]>>}
           [] GateOf(t) = "run" -> {<<"run", t.key, 0, FtName(t)[1]>>}
           [] OTHER -> {}

\* no two goroutines at work on the duties of one kind and epoch / period (overlapping refreshes: see the open finding)
NoOverlap == \A t \in tasks, u \in tasks : (t # u /\ t.k = u.k /\ t.key = u.key) => t.k = "ft"

\* a step that is taken at once (see Internal)
LocalReady(t) ==
    /\ ~Parked(t) /\ ~LockWait(t)
    /\ \/ t.st \in {"begin", "fetch", "filter"}
       \/ t.st = "accounts" /\ ~t.blk /\ GateOf(t) \notin hold
       \/ ~t.blk /\ GateOf(t) \in hold
       \/ t.st = "sched" /\ "sched" \in hold

(* HandleHeadEvent for the current slot.  A root differing from the one of the previous event   *)
(* shows a reorg: attesters of this epoch hang on the previous root; proposers of this epoch,   *)
(* attesters of the next epoch and (in the first epoch of a period) the next sync committee on  *)
(* the current root.  After an epoch without events the comparison is not meaningful: the       *)
(* attester refresh is then optional (harmless).  The refreshes are goroutines; the handler     *)
(* itself goes on to fast-track the slot's jobs beside them.                                    *)
HeadEvent(optional) ==
    /\ up /\ Settled
    /\ ~tickDue            \* Env_TickBeforeHead: the epoch ticker (slot start) runs before the slot's block arrives
    /\ LET e == Epoch(now)
           np == RootOf(e - 1)
           nc == RootOf(e)
           same == seen.has /\ seen.e = e
           next == seen.has /\ seen.e + 1 = e
           skipped == seen.has /\ seen.e + 1 < e
           prevChanged == (same /\ seen.prev # np) \/ (next /\ seen.cur # np) \/ (skipped /\ optional)
           curChanged == same /\ seen.cur # nc
           refresh == (IF prevChanged THEN <<RefreshTask("att", e)>> ELSE <<>>)
                      \o (IF curChanged
                          THEN <<RefreshTask("prop", e), RefreshTask("att", e + 1)>>
                               \o (IF e % EP = 0 /\ e >= cfg.fork THEN <<RefreshTask("sync", Period(e) + 1)>> ELSE <<>>)
                          ELSE <<>>)
           ft == IF cfg.ft THEN <<Task("ft", now, FALSE, "ftatt")>> ELSE <<>>
       IN /\ optional => skipped
          /\ seen' = [has |-> TRUE, e |-> e, prev |-> np, cur |-> nc]
          /\ tasks' = Spawn(tasks, refresh \o ft)
          /\ shown' = LET s1 == IF prevChanged /\ ~optional THEN Put(shown, <<"att", e>>, VerOf(e - 1)) ELSE shown
                          s2 == IF curChanged THEN Put(Put(s1, <<"prop", e>>, VerOf(e)), <<"att", e + 1>>, VerOf(e)) ELSE s1
                      IN s2
    /\ UNCHANGED <<cfg, oracle, now, depVer, up, jobs, done, latestTick, tickDue, startedAt, fetched, nReorg, nCrash, nSpur, hold, acct, lk, nAcct>>

-----------------------------------------------------------------------------
(* The scheduler starts a job at its time (earliest first) - with Interleave, between any two   *)
(* steps of the controller's goroutines.                                                        *)
FireStep(nm, headUpToDate) ==
    /\ up /\ ~tickDue
    /\ Settled \/ (Interleave /\ ~\E t \in tasks : LocalReady(t))
    /\ nm \in DOMAIN jobs /\ Due(nm)
    /\ LET k == nm[1]
           n == nm[2]
           j == jobs[nm]
           rest == Drop(jobs, {nm})
       IN CASE k = "prepepoch" ->       \* prepareForEpoch obtains the accounts itself: explored with a prompt provider only
                 /\ "acct" \notin hold
                 /\ jobs' = rest /\ done' = done
                 /\ tasks' = Spawn(tasks, WithAv(<<Task("att", n, FALSE, "fetch")>>, ActiveNow))   \* failed / empty: it returns
            [] k \in {"att", "prop", "syncmsg"} ->
                 /\ jobs' = rest /\ tasks' = tasks
                 /\ done' = BagAdd(done, [k |-> k, n |-> n, vals |-> j.vals])
            [] k = "syncprep" ->
                 /\ jobs' = AddJob(rest, "syncmsg", n, j.vals, j.ver, j.av)
                 /\ done' = done /\ tasks' = tasks
            [] k = "early" ->       \* proposeEarly: run the proposal now if the head is up to date
                 /\ tasks' = tasks
                 /\ IF headUpToDate
                    THEN LET r == RunNow(rest, done, <<"prop", n>>) IN jobs' = r[1] /\ done' = r[2]
                    ELSE jobs' = rest /\ done' = done
    /\ (nm[1] # "early" \/ nm[2] = 0) => ~headUpToDate      \* there is no head before slot 0
    /\ UNCHANGED fetched /\ UNCHANGED Others

\* Env_TimelyScheduler: jobs start earliest first
Fire(nm, headUpToDate) == nm \in DOMAIN jobs /\ Earliest(nm) /\ FireStep(nm, headUpToDate)

Hold(k, on) ==
    /\ up /\ Settled
    /\ k \in Gates
    /\ on = (k \notin hold)
    /\ hold' = IF on THEN hold \cup {k} ELSE hold \ {k}
    /\ UNCHANGED <<cfg, oracle, now, depVer, up, jobs, tasks, done, seen, latestTick, tickDue, startedAt, fetched, shown, nReorg, nCrash, nSpur, acct, lk, nAcct>>

\* a delayed duty reply is delivered / a delayed call goes through
Release(t) ==
    /\ up /\ Settled
    /\ t \in tasks
    /\ \/ /\ t.st = "held"
          /\ Swap(t, {[t EXCEPT !.st = "filter"]})
          /\ UNCHANGED <<jobs, done, fetched>> /\ UNCHANGED Others
       \/ t.blk /\ GatedStep(t)
ReleaseSched(t, d) ==
    /\ up /\ Settled
    /\ t \in tasks /\ t.st = "sched" /\ d \in t.duties /\ d.blk
    /\ SchedOne(t, d)

(* The controller's goroutines take their steps one at a time, in any order - up to two         *)
(* reductions that lose no reachable job table / executed-duty log and no invariant violation   *)
(* (every invariant is a conjunction over job names or over executed duties, or speaks of       *)
(* quiescent states only):                                                                      *)
(*  - a step that touches neither the job table nor the executed duties and that nothing can    *)
(*    disable (DoBegin, an undelayed DoAccounts, Fetch, Filter, Block) commutes with every other*)
(*    step: it is taken at once (lowest task id first);                                         *)
(*  - tasks that work on disjoint job names (different duty kind or epoch) commute: while no two*)
(*    a task that shares no name with any other active task runs first (lowest id first); all   *)
(*    interleavings are explored among tasks that share names (two refreshes / fetches of one   *)
(*    epoch, the fast track beside an attester or sync committee refresh).  The ScheduleJob     *)
(*    calls of a task that runs alone (its duties' goroutines, each on its own name) are taken  *)
(*    lowest slot first.  Job starts by the timer (Fire) are not part of this order: they fall  *)
(*    between any two steps.                                                                    *)
FirstDuty(S) == CHOOSE d \in S : \A x \in S : d.slot <= x.slot
StepsOf(t, alone) ==
    \/ FreeStep(t)
    \/ ~t.blk /\ GateOf(t) \notin hold /\ GatedStep(t)
    \/ Block(t)
    \/ /\ t.st = "sched"
       /\ LET W == {d \in t.duties : ~d.blk} IN
          /\ W # {}
          /\ IF "sched" \in hold THEN BlockSched(t, FirstDuty(W))
             ELSE IF alone THEN SchedOne(t, FirstDuty(W))
             ELSE \E d \in W : SchedOne(t, d)
Active == {t \in tasks : ~Parked(t) /\ ~LockWait(t)}
\* the job names a task may still touch
NamesOf(t) ==
    CASE t.k = "att" -> {<<"att", x>> : x \in First(t.key)..Last(t.key)}
      [] t.k = "prop" -> {<<"prop", x>> : x \in First(t.key)..Last(t.key)} \cup {<<"early", x>> : x \in First(t.key)..Last(t.key)}
      [] t.k = "sync" -> UNION {{<<"syncprep", x>>, <<"syncmsg", x>>} : x \in (First(PeriodStart(t.key)) - 1)..SyncHi(t.key)}
      [] t.k = "ft" -> IF t.st \in {"ftatt", "ftattrun"} THEN {<<"att", t.key>>, <<"syncmsg", t.key>>} ELSE {<<"syncmsg", t.key>>}
Conflict(t, u) == NamesOf(t) \cap NamesOf(u) # {}
Lowest(S) == CHOOSE t \in S : \A u \in S : t.id <= u.id
Internal ==
    LET L == {t \in tasks : LocalReady(t)}
        Alone == {t \in Active : \A u \in Active : u # t => ~Conflict(t, u)} IN
    IF L # {} THEN StepsOf(Lowest(L), TRUE)
    ELSE IF Alone # {} THEN StepsOf(Lowest(Alone), TRUE)
    ELSE \E t \in Active : StepsOf(t, FALSE)

Next ==
    \/ \E w \in BOOLEAN : Start(w)
    \/ Crash \/ Advance \/ EpochTick
    \/ \E b \in 0..(MaxEpoch + 1) : Reorg(b)
    \/ \E o \in BOOLEAN : HeadEvent(o)
    \/ \E nm \in DOMAIN jobs, h \in BOOLEAN : Fire(nm, h)
    \/ Internal
    \/ \E k \in Gates, on \in BOOLEAN : Hold(k, on)
    \/ \E a \in AnswersFor(cfg) : SetAccounts(a)
    \/ \E t \in tasks : Release(t) \/ (t.st = "sched" /\ \E d \in t.duties : ReleaseSched(t, d))

Spec == Init /\ [][Next]_vars

-----------------------------------------------------------------------------
(* Invariants (property C03).                                                                   *)
TypeOK ==
    /\ now \in 0..MaxSlot
    /\ \A nm \in DOMAIN jobs : nm[1] \in DutyKinds \cup {"early", "prepepoch"}
    /\ acct \in AllAnswers(cfg) /\ lk \in {"free", "held", "leaked"}

\* "timed at the slot start plus the configured delay"
JobTimeRight == \A nm \in DOMAIN jobs : nm[1] # "prepepoch" => jobs[nm].time = JobTime(nm[1], nm[2])

OracleVals(k, n, ver) ==
    CASE k = "att" -> {r.v : r \in {x \in oracle.att : x.e = Epoch(n) /\ x.ver = ver /\ x.slot = n}}
      [] k \in {"prop", "early"} -> {r.v : r \in {x \in oracle.prop : x.e = Epoch(n) /\ x.ver = ver /\ x.slot = n}}
      [] k \in {"syncprep", "syncmsg"} -> {r.v : r \in {x \in oracle.sync : x.p = Period(Epoch(n + 1)) /\ x.ver = ver}}

\* "covering exactly the validators with that duty" (of the reply the job was made from: the node was asked about the
\* validators that the call's own accounts lookup named), and
\* "ignores duties outside the requested epoch": there is a job only where the oracle has a duty of that epoch
JobCoversExactly ==
    \A nm \in DOMAIN jobs : nm[1] # "prepepoch" =>
        /\ jobs[nm].vals = OracleVals(nm[1], nm[2], jobs[nm].ver) \cap jobs[nm].av
        /\ jobs[nm].vals # {}

\* "no slot is ever proposed or attested for twice" (sync messages likewise)
NoSlotTwice == \A x \in DOMAIN done, y \in DOMAIN done : (x.k = y.k /\ x.n = y.n) => (x = y /\ done[x] = 1)
\* "exactly one job per duty slot", over time: a duty that has been carried out has no job (any more, or again)
OneJobPerDutySlot ==
    \A nm \in DOMAIN jobs : nm[1] \in {"att", "prop", "syncmsg", "syncprep"} =>
        ~\E x \in DOMAIN done : x.k = (IF nm[1] = "syncprep" THEN "syncmsg" ELSE nm[1]) /\ x.n = nm[2]

\* "when started or restarted at any point after genesis it schedules only strictly later slots"
OnlyStrictlyLaterOnStart ==
    (up /\ ~startedAt.waited) =>
        \A nm \in DOMAIN jobs : nm[1] \in DutyKinds \cup {"early"} => nm[2] > startedAt.slot

\* sync committee window
SyncWindowRight ==
    \A nm \in DOMAIN jobs : nm[1] \in {"syncprep", "syncmsg"} =>
        LET p == Period(Epoch(nm[2] + 1)) IN
        /\ nm[2] >= First(PeriodStart(p)) - 1
        /\ nm[2] <= First((p + 1) * EP) - 2
        /\ Epoch(nm[2] + 1) >= cfg.fork

EpochTickOnce == latestTick <= Epoch(now)

(* "no obtained future duty is left without a job": at quiescence every duty of the reply last  *)
(* obtained for an epoch / period, for a slot still to come, has its job (or has been run early)*)
Covered(k, n) == <<k, n>> \in DOMAIN jobs \/ \E x \in DOMAIN done : x.k = k /\ x.n = n
NoFutureDutyUnscheduled ==
    (up /\ Quiescent) =>
        \A fk \in DOMAIN fetched :
            LET k == fk[1]
                key == fk[2]
                ver == fetched[fk].ver
                av == fetched[fk].av
            IN CASE k = "att" -> \A r \in oracle.att : (r.e = key /\ r.ver = ver /\ r.v \in av /\ InEpoch(key, r.slot) /\ r.slot > now) => Covered("att", r.slot)
                 [] k = "prop" -> \A r \in oracle.prop : (r.e = key /\ r.ver = ver /\ r.v \in av /\ InEpoch(key, r.slot) /\ r.slot > now) => Covered("prop", r.slot)
                 [] k = "sync" -> (Epoch(now) >= cfg.fork /\ \E r \in oracle.sync : r.p = key /\ r.ver = ver /\ r.v \in av) =>
                                     \A s \in SyncLo(key)..SyncHi(key) : s > now =>
                                         (<<"syncprep", s>> \in DOMAIN jobs \/ Covered("syncmsg", s))

(* "it replaces the not-yet-run jobs of the affected epoch by jobs for the duties it then       *)
(* obtains": at quiescence no job made from an older reply than the latest one is left, and the *)
(* latest reply is not older than what a head event has shown                                   *)
JobKey(nm) == CASE nm[1] = "att" -> <<"att", Epoch(nm[2])>>
                [] nm[1] \in {"prop", "early"} -> <<"prop", Epoch(nm[2])>>
                [] nm[1] \in {"syncprep", "syncmsg"} -> <<"sync", Period(Epoch(nm[2] + 1))>>
NoStaleJob ==
    (up /\ Quiescent) =>
        \A nm \in DOMAIN jobs : nm[1] # "prepepoch" =>
            /\ JobKey(nm) \in DOMAIN fetched
            /\ jobs[nm].ver = fetched[JobKey(nm)].ver
            /\ jobs[nm].av = fetched[JobKey(nm)].av
ReorgActedOn ==
    (up /\ Quiescent) =>
        \A fk \in DOMAIN fetched : fk \in DOMAIN shown => fetched[fk].ver >= shown[fk]

(* Every call ends: a goroutine of the controller that is not waiting at an interface of the    *)
(* environment (a delayed reply or call, which the environment lets through in the end) can take*)
(* its next step - whatever the calls before it on this instance did, whichever way they left.  *)
(* (On the real controller: a goroutine that is still there when nothing moves any more and     *)
(* that waits at none of the scripted interfaces - the driver's watchdog reports it as an event *)
(* Hung, which no action of the trace specification allows.)                                    *)
RefreshCompletes == (up /\ ~Settled) => ENABLED Internal
=============================================================================
