----------------------------- MODULE Controller -----------------------------
(* Vouch's controller (services/controller/standard): which jobs exist, for which slot, at      *)
(* which time and for which validators, from start-up through epoch ticks, reorgs, job          *)
(* execution and restarts.  Property C03.                                                       *)
(*                                                                                              *)
(* State.  now: the clock (slot).  depVer[b]: version of the duty-dependent root at epoch       *)
(* boundary b (the last block before epoch b); a reorg bumps it.  oracle: what a beacon node    *)
(* returns - attester duties of epoch e are a function of depVer[e-1], proposer duties of epoch *)
(* e of depVer[e], sync committee duties of period p of depVer[(p-1)*EP].  jobs: the abstract   *)
(* job table of the scheduler, name = <<kind, n>> |-> [time, vals, ver].  tasks: goroutines of  *)
(* the controller that are under way (fetching duties, cancelling, scheduling).  done: bag of   *)
(* executed duties.  seen: roots of the last head event.                                        *)
(*                                                                                              *)
(* Actions (one per entry point / critical section of the Go code):                             *)
(*   Start(w)          New(): construction at any instant (w: waited for genesis); also restart *)
(*   Crash             the process dies: volatile state is lost, executed duties are history    *)
(*   Advance           the clock moves to the next slot                                         *)
(*   Reorg(b)          environment: the chain reorganises below boundary b                      *)
(*   EpochTick         epochTicker (periodic job), guarded to run once per epoch                *)
(*   Fire(nm, up)      the scheduler starts job nm at its time (prepare-for-epoch, attest,      *)
(*                     propose, propose-early check, sync prepare, sync message)                *)
(*   HeadEvent         HandleHeadEvent for the current slot with the roots in force             *)
(*   Fetch(t)          a schedule* goroutine obtains duties from the beacon node                *)
(*   Filter(t)         ... reads the clock and keeps the duties of the epoch not yet passed     *)
(*   SchedOne(t, d)    ... one ScheduleJob call (each is its own goroutine in the code)         *)
(*   Cancel(t)         the cancel loop of refresh*DutiesForEpoch                                *)
(*   Hold(k, on)       environment: the beacon node starts / stops delaying its replies for     *)
(*                     duty kind k (the reply is computed when asked and delivered later)       *)
(*   Release(t)        environment: a delayed reply is delivered                                *)
EXTENDS Integers, FiniteSets, Sequences, TLC, ChainTime

CONSTANTS MaxSlot,      \* the clock stops here
          MaxVer,       \* bound on reorgs per boundary
          MaxReorgs,    \* bound on reorgs per behaviour
          MaxCrashes,
          Gated,        \* TRUE: duty replies may be delayed across other steps (overlapping refreshes)
          Cfgs,         \* chain / controller configurations to start from
          OraclesFor(_) \* duty oracles to start from, per configuration

VARIABLES cfg,      \* configuration (never changes): [p slots per epoch, d slot duration (s), ep epochs per sync
                    \* committee period, prep syncCommitteePreparationEpochs, fork Altair fork epoch, ft fast-track
                    \* on head events, attd / propd / syncd configured delays (s), vals validators with an account]
          oracle,   \* [att, prop, sync] sets of duty records
          now, depVer, up, jobs, tasks, done, seen,
          latestTick,   \* latestEpochRan of the epoch ticker
          tickDue,      \* the periodic epoch ticker job is due
          startedAt,    \* [slot, waited] of the last Start
          fetched,      \* <<kind, key>> |-> version used by the latest fetch
          shown,        \* <<kind, key>> |-> version that a head event has shown to be in force
          hold,         \* duty kinds whose replies the node currently delays
          nReorg, nCrash, nSpur

vars == <<cfg, oracle, now, depVer, up, jobs, tasks, done, seen, latestTick, tickDue, startedAt,
          fetched, shown, hold, nReorg, nCrash, nSpur>>

P == cfg.p
D == cfg.d
EP == cfg.ep
Prep == cfg.prep
AttDelay == cfg.attd
PropDelay == cfg.propd
SyncDelay == cfg.syncd
Validators == cfg.vals
C == [g |-> 0, d |-> D, p |-> P]
Epoch(s) == SlotToEpoch(C, s)
First(e) == FirstSlotOfEpoch(C, e)
Last(e) == LastSlotOfEpoch(C, e)
SlotStart(s) == StartOfSlot(C, s)
MaxEpoch == MaxSlot       \* a bound on epoch numbers good for every P
Max(a, b) == IF a > b THEN a ELSE b
Min(a, b) == IF a < b THEN a ELSE b

Empty == [x \in {} |-> 0]
Put(f, k, v) == [x \in (DOMAIN f) \cup {k} |-> IF x = k THEN v ELSE f[x]]
Drop(f, K) == [x \in (DOMAIN f) \ K |-> f[x]]
Get(f, k, dflt) == IF k \in DOMAIN f THEN f[k] ELSE dflt
BagAdd(b, x) == Put(b, x, Get(b, x, 0) + 1)

-----------------------------------------------------------------------------
(* Duty oracle.  att/prop records: [e, ver, v, slot]; sync records: [p, ver, v].                *)
Period(e) == e \div EP
PeriodStart(p) == Max(p * EP, cfg.fork)                 \* firstEpochOfSyncPeriod: clamped to the fork
VerOf(b) == IF b < 0 THEN 0 ELSE depVer[b]
AttVer(e) == VerOf(e - 1)
PropVer(e) == VerOf(e)
SyncVer(p) == VerOf((p - 1) * EP)
KeyVer(k, key) == CASE k = "att" -> AttVer(key) [] k = "prop" -> PropVer(key) [] k = "sync" -> SyncVer(key)

\* what the node returns now
AttReply(e) == {[slot |-> r.slot, v |-> r.v] : r \in {x \in oracle.att : x.e = e /\ x.ver = AttVer(e)}}
PropReply(e) == {[slot |-> r.slot, v |-> r.v] : r \in {x \in oracle.prop : x.e = e /\ x.ver = PropVer(e)}}
SyncReply(p) == {r.v : r \in {x \in oracle.sync : x.p = p /\ x.ver = SyncVer(p)}}

\* per-slot merge (attester.MergeDuties): slot |-> validators, only slots of the requested epoch
InEpoch(e, s) == First(e) <= s /\ s <= Last(e)
Merge(e, reply) == {[slot |-> s, vals |-> {r.v : r \in {x \in reply : x.slot = s}}] :
                        s \in {r.slot : r \in {x \in reply : InEpoch(e, x.slot)}}}

\* not yet passed: strictly later, or the current slot unless told otherwise
Survives(s, nc) == s > now \/ (s = now /\ ~nc)

(* Sync committee window of period p: a message in every slot from the one before the period's  *)
(* first slot (or from now, if later) to the one before its last slot.                          *)
SyncLo(p) == Max(First(PeriodStart(p)) - 1, now)
SyncHi(p) == First((p + 1) * EP) - 2
SyncWindow(p, nc) == {s \in SyncLo(p)..SyncHi(p) : Survives(s, nc)}

-----------------------------------------------------------------------------
(* Jobs. *)
DutyKinds == {"att", "prop", "syncprep", "syncmsg"}
JobTime(k, n) ==
    CASE k = "att" -> SlotStart(n) + AttDelay
      [] k = "prop" -> SlotStart(n) + PropDelay
      [] k = "early" -> SlotStart(n)
      [] k = "syncprep" -> SlotStart(n) - (D * 6) \div 4
      [] k = "syncmsg" -> SlotStart(n) + SyncDelay
\* prepare-for-epoch: the property does not say when inside the epoch; the code uses mid-epoch
PrepTime(e) == StartOfEpoch(C, e - 1) + (P * D + D) \div 2

Due(nm) == jobs[nm].time < SlotStart(now + 1)
Earliest(nm) == \A o \in DOMAIN jobs : jobs[o].time >= jobs[nm].time

Task(k, key, nc, st) == [k |-> k, key |-> key, nc |-> nc, st |-> st, ver |-> -1, duties |-> {}, cnt |-> 1]
Quiescent == tasks = {}
\* a delayed reply (a task that was given its duties by the node but has not received them yet) may stay
Settled == \A t \in tasks : t.st = "held"
\* identical delayed replies are counted
AddHeld(ts, t) == IF \E u \in ts : [u EXCEPT !.cnt = 1] = t
                  THEN {IF [u EXCEPT !.cnt = 1] = t THEN [u EXCEPT !.cnt = @ + 1] ELSE u : u \in ts}
                  ELSE ts \cup {t}

-----------------------------------------------------------------------------
Init ==
    /\ cfg \in Cfgs
    /\ oracle \in OraclesFor(cfg)
    /\ now \in 0..MaxSlot
    /\ depVer = [b \in 0..(MaxEpoch + 1) |-> 0]
    /\ up = FALSE
    /\ jobs = Empty /\ tasks = {} /\ done = Empty
    /\ seen = [has |-> FALSE, e |-> 0, prev |-> <<0, 0>>, cur |-> <<0, 0>>]
    /\ latestTick = -1 /\ tickDue = FALSE
    /\ startedAt = [slot |-> 0, waited |-> TRUE]
    /\ fetched = Empty /\ shown = Empty
    /\ hold = {}
    /\ nReorg = 0 /\ nCrash = 0 /\ nSpur = 0

SyncTasksAtStart(e) ==
    IF e < cfg.fork THEN {}
    ELSE {Task("sync", Period(e), TRUE, "fetch")}
         \cup (IF PeriodStart(Period(e) + 1) - e <= Prep THEN {Task("sync", Period(e) + 1, TRUE, "fetch")} ELSE {})

(* New(): duties of the rest of this epoch and of the next; only strictly later slots unless we *)
(* waited for genesis.                                                                          *)
Start(w) ==
    /\ ~up
    /\ w => (now = 0 /\ done = Empty)
    /\ up' = TRUE
    /\ LET e == Epoch(now) IN
        tasks' = {Task("prop", e, ~w, "fetch"), Task("att", e, ~w, "fetch"), Task("att", e + 1, TRUE, "fetch")}
                 \cup SyncTasksAtStart(e)
    /\ jobs' = Empty
    /\ seen' = [has |-> FALSE, e |-> 0, prev |-> <<0, 0>>, cur |-> <<0, 0>>]
    /\ latestTick' = -1 /\ tickDue' = FALSE
    /\ startedAt' = [slot |-> now, waited |-> w]
    /\ fetched' = Empty /\ shown' = Empty /\ hold' = {}
    /\ UNCHANGED <<cfg, oracle, now, depVer, done, nReorg, nCrash, nSpur>>

Crash ==
    /\ up /\ Quiescent
    /\ nCrash < MaxCrashes
    /\ nCrash' = nCrash + 1
    /\ up' = FALSE /\ jobs' = Empty /\ tasks' = {} /\ tickDue' = FALSE
    /\ UNCHANGED <<cfg, oracle, now, depVer, done, seen, latestTick, startedAt, fetched, shown, nReorg, nSpur, hold>>

\* a timely scheduler: the clock does not pass a job's slot without the job having been started
Advance ==
    /\ now < MaxSlot
    /\ up => (Settled /\ ~tickDue /\ \A nm \in DOMAIN jobs : ~Due(nm))
    /\ now' = now + 1
    /\ tickDue' = (up /\ now + 1 = First(Epoch(now + 1)))
    /\ UNCHANGED <<cfg, oracle, depVer, up, jobs, tasks, done, seen, latestTick, startedAt, fetched, shown, nReorg, nCrash, nSpur, hold>>

\* Env_GenesisRootsFixed: the roots of boundaries 0 and below are the genesis root.
\* A reorg reaches at most the previous epoch's boundary.
\* Env_SyncRootShallow: the root that fixes the next sync committee (boundary of a period's first
\* epoch) is not reorganised once that epoch is over - the controller, like the property, ties the
\* sync committee duties to the current dependent root seen in the first epoch of the period.
Reorg(b) ==
    /\ b >= 1 /\ b \in {Epoch(now) - 1, Epoch(now)}
    /\ (b % EP = 0) => Epoch(now) = b
    /\ nReorg < MaxReorgs /\ depVer[b] < MaxVer
    /\ up => Settled
    /\ depVer' = [depVer EXCEPT ![b] = @ + 1]
    /\ nReorg' = nReorg + 1
    /\ UNCHANGED <<cfg, oracle, now, up, jobs, tasks, done, seen, latestTick, tickDue, startedAt, fetched, shown, nCrash, nSpur, hold>>

-----------------------------------------------------------------------------
(* The epoch ticker: proposals of this epoch, sync committee periods at the fork epoch and Prep *)
(* epochs before a period starts, and the prepare-for-epoch job for the next epoch's attesters. *)
SyncTasksAtTick(e) ==
    (IF e = cfg.fork
     THEN {Task("sync", Period(e), FALSE, "fetch")}
          \cup (IF (Period(e) + 1) * EP - e <= Prep THEN {Task("sync", Period(e) + 1, FALSE, "fetch")} ELSE {})
     ELSE {})
    \cup (IF e >= cfg.fork /\ e % EP = EP - Prep THEN {Task("sync", Period(e) + 1, FALSE, "fetch")} ELSE {})

TickBody(e) ==
    /\ latestTick' = e
    /\ tasks' = tasks \cup {Task("prop", e, FALSE, "fetch")} \cup SyncTasksAtTick(e)
    /\ jobs' = IF <<"prepepoch", e + 1>> \in DOMAIN jobs THEN jobs
               ELSE Put(jobs, <<"prepepoch", e + 1>>, [time |-> PrepTime(e + 1), vals |-> {}, ver |-> 0])

EpochTick ==
    /\ up /\ Settled
    /\ \/ tickDue /\ nSpur' = nSpur
       \/ ~tickDue /\ latestTick = Epoch(now) /\ nSpur < 1 /\ nSpur' = nSpur + 1     \* spurious second run
    /\ tickDue' = FALSE
    /\ IF latestTick >= Epoch(now)
       THEN UNCHANGED <<latestTick, tasks, jobs>>
       ELSE TickBody(Epoch(now))
    /\ UNCHANGED <<cfg, oracle, now, depVer, up, done, seen, startedAt, fetched, shown, nReorg, nCrash, hold>>

-----------------------------------------------------------------------------
(* schedule{Attestations,Proposals,SyncCommitteeMessages}: fetch, filter, one ScheduleJob each. *)
Fetch(t) ==
    /\ t \in tasks /\ t.st = "fetch"
    /\ LET ver == KeyVer(t.k, t.key)
           reply == CASE t.k = "att" -> Merge(t.key, AttReply(t.key))
                      [] t.k = "prop" -> {[slot |-> r.slot, vals |-> {r.v}] : r \in {x \in PropReply(t.key) : InEpoch(t.key, x.slot)}}
                      [] t.k = "sync" -> IF SyncReply(t.key) = {} THEN {} ELSE {[slot |-> -1, vals |-> SyncReply(t.key)]}
           nt == [t EXCEPT !.st = IF t.k \in hold THEN "held" ELSE "filter", !.ver = ver, !.duties = reply]
       IN /\ tasks' = IF t.k \in hold THEN AddHeld(tasks \ {t}, nt) ELSE (tasks \ {t}) \cup {nt}
          /\ fetched' = Put(fetched, <<t.k, t.key>>, ver)
    /\ UNCHANGED <<cfg, oracle, now, depVer, up, jobs, done, seen, latestTick, tickDue, startedAt, shown, nReorg, nCrash, nSpur, hold>>

Filter(t) ==
    /\ t \in tasks /\ t.st = "filter"
    /\ LET kept == IF t.k = "sync"
                   THEN IF t.duties = {} THEN {}
                        ELSE {[slot |-> s, vals |-> (CHOOSE d \in t.duties : TRUE).vals] : s \in SyncWindow(t.key, t.nc)}
                   ELSE {d \in t.duties : Survives(d.slot, t.nc)}
       IN tasks' = (tasks \ {t}) \cup (IF kept = {} THEN {} ELSE {[t EXCEPT !.st = "sched", !.duties = kept]})
    /\ UNCHANGED <<cfg, oracle, now, depVer, up, jobs, done, seen, latestTick, tickDue, startedAt, fetched, shown, nReorg, nCrash, nSpur, hold>>

\* a name is claimed once: ScheduleJob on an existing name fails and changes nothing
AddJob(js, k, n, vals, ver) ==
    IF <<k, n>> \in DOMAIN js THEN js ELSE Put(js, <<k, n>>, [time |-> JobTime(k, n), vals |-> vals, ver |-> ver])

JobsFor(js, t, d) ==
    CASE t.k = "att" -> AddJob(js, "att", d.slot, d.vals, t.ver)
      [] t.k = "prop" -> AddJob(IF PropDelay > 0 THEN AddJob(js, "early", d.slot, d.vals, t.ver) ELSE js,
                                "prop", d.slot, d.vals, t.ver)
      [] t.k = "sync" -> AddJob(js, "syncprep", d.slot, d.vals, t.ver)

SchedOne(t, d) ==
    /\ t \in tasks /\ t.st = "sched" /\ d \in t.duties
    /\ jobs' = JobsFor(jobs, t, d)
    /\ tasks' = (tasks \ {t}) \cup (IF t.duties = {d} THEN {} ELSE {[t EXCEPT !.duties = @ \ {d}]})
    /\ UNCHANGED <<cfg, oracle, now, depVer, up, done, seen, latestTick, tickDue, startedAt, fetched, shown, nReorg, nCrash, nSpur, hold>>

-----------------------------------------------------------------------------
(* refresh*DutiesFor*: cancel the jobs of the epoch / period, then fetch and schedule again.    *)
CancelNames(t) ==
    CASE t.k = "att" -> {<<"att", s>> : s \in First(t.key)..Last(t.key)}
      [] t.k = "prop" -> {<<"prop", s>> : s \in First(t.key)..Last(t.key)} \cup {<<"early", s>> : s \in First(t.key)..Last(t.key)}
      [] t.k = "sync" -> UNION {{<<"syncprep", s>>, <<"syncmsg", s>>} : s \in (First(PeriodStart(t.key)) - 1)..SyncHi(t.key)}

Cancel(t) ==
    /\ t \in tasks /\ t.st = "cancel"
    /\ IF t.k = "att" /\ <<"prepepoch", t.key>> \in DOMAIN jobs
       THEN /\ tasks' = tasks \ {t}           \* the epoch is not prepared yet: nothing to refresh
            /\ jobs' = jobs
       ELSE /\ jobs' = Drop(jobs, CancelNames(t))
            /\ tasks' = (tasks \ {t}) \cup
                 {[t EXCEPT !.st = "fetch",
                            \* attester: the current slot is rescheduled only if its job was still waiting;
                            \* proposer: never (Env_HeadImpliesBlock); sync: the current slot may be scheduled
                            !.nc = CASE t.k = "att" -> <<"att", now>> \notin DOMAIN jobs
                                     [] t.k = "prop" -> TRUE
                                     [] t.k = "sync" -> FALSE]}
    /\ UNCHANGED <<cfg, oracle, now, depVer, up, done, seen, latestTick, tickDue, startedAt, fetched, shown, nReorg, nCrash, nSpur, hold>>

RootOf(b) == <<b, VerOf(b)>>

(* HandleHeadEvent for the current slot.  A root differing from the one of the previous event   *)
(* shows a reorg: attesters of this epoch hang on the previous root; proposers of this epoch,   *)
(* attesters of the next epoch and (in the first epoch of a period) the next sync committee on  *)
(* the current root.  After an epoch without events the comparison is not meaningful: the       *)
(* attester refresh is then optional (harmless).                                                *)
RunNow(js, dn, nm) ==       \* RunJobIfExists on a duty job: <<jobs', done'>>
    IF nm \in DOMAIN js
    THEN <<Drop(js, {nm}), BagAdd(dn, [k |-> nm[1], n |-> nm[2], vals |-> js[nm].vals])>>
    ELSE <<js, dn>>

HeadEvent(optional) ==
    /\ up /\ Settled
    /\ ~tickDue            \* Env_TickBeforeHead: the epoch ticker (slot start) runs before the slot's block arrives
    /\ LET e == Epoch(now)
           np == RootOf(e - 1)
           nc == RootOf(e)
           same == seen.has /\ seen.e = e
           next == seen.has /\ seen.e + 1 = e
           skipped == seen.has /\ seen.e + 1 < e
           prevChanged == (same /\ seen.prev # np) \/ (next /\ seen.cur # np) \/ (skipped /\ optional)
           curChanged == same /\ seen.cur # nc
           refresh == (IF prevChanged THEN {Task("att", e, FALSE, "cancel")} ELSE {})
                      \cup (IF curChanged
                            THEN {Task("prop", e, TRUE, "cancel"), Task("att", e + 1, FALSE, "cancel")}
                                 \cup (IF e % EP = 0 /\ e >= cfg.fork THEN {Task("sync", Period(e) + 1, FALSE, "cancel")} ELSE {})
                            ELSE {})
           r1 == IF cfg.ft THEN RunNow(jobs, done, <<"att", now>>) ELSE <<jobs, done>>
           r2 == IF cfg.ft THEN RunNow(r1[1], r1[2], <<"syncmsg", now>>) ELSE r1
       IN /\ optional => skipped
          /\ seen' = [has |-> TRUE, e |-> e, prev |-> np, cur |-> nc]
          /\ tasks' = tasks \cup refresh
          /\ jobs' = r2[1] /\ done' = r2[2]
          /\ shown' = LET s1 == IF prevChanged /\ ~optional THEN Put(shown, <<"att", e>>, VerOf(e - 1)) ELSE shown
                          s2 == IF curChanged THEN Put(Put(s1, <<"prop", e>>, VerOf(e)), <<"att", e + 1>>, VerOf(e)) ELSE s1
                      IN s2
    /\ UNCHANGED <<cfg, oracle, now, depVer, up, latestTick, tickDue, startedAt, fetched, nReorg, nCrash, nSpur, hold>>

-----------------------------------------------------------------------------
(* The scheduler starts a job at its time (earliest first).                                     *)
Fire(nm, headUpToDate) ==
    /\ up /\ Settled /\ ~tickDue
    /\ nm \in DOMAIN jobs /\ Due(nm) /\ Earliest(nm)
    /\ LET k == nm[1]
           n == nm[2]
           j == jobs[nm]
           rest == Drop(jobs, {nm})
       IN CASE k = "prepepoch" ->
                 /\ jobs' = rest /\ done' = done
                 /\ tasks' = tasks \cup {Task("att", n, FALSE, "fetch")}
            [] k \in {"att", "prop", "syncmsg"} ->
                 /\ jobs' = rest /\ tasks' = tasks
                 /\ done' = BagAdd(done, [k |-> k, n |-> n, vals |-> j.vals])
            [] k = "syncprep" ->
                 /\ jobs' = AddJob(rest, "syncmsg", n, j.vals, j.ver)
                 /\ done' = done /\ tasks' = tasks
            [] k = "early" ->       \* proposeEarly: run the proposal now if the head is up to date
                 /\ tasks' = tasks
                 /\ IF headUpToDate
                    THEN LET r == RunNow(rest, done, <<"prop", n>>) IN jobs' = r[1] /\ done' = r[2]
                    ELSE jobs' = rest /\ done' = done
    /\ (nm[1] # "early" \/ nm[2] = 0) => ~headUpToDate      \* there is no head before slot 0
    /\ UNCHANGED <<cfg, oracle, now, depVer, up, seen, latestTick, tickDue, startedAt, fetched, shown, nReorg, nCrash, nSpur, hold>>

Hold(k, on) ==
    /\ Gated /\ up /\ Settled
    /\ k \in {"att", "prop"}
    /\ on = (k \notin hold)
    /\ hold' = IF on THEN hold \cup {k} ELSE hold \ {k}
    /\ UNCHANGED <<cfg, oracle, now, depVer, up, jobs, tasks, done, seen, latestTick, tickDue, startedAt, fetched, shown, nReorg, nCrash, nSpur>>

Release(t) ==
    /\ up /\ Settled
    /\ t \in tasks /\ t.st = "held"
    /\ tasks' = (tasks \ {t}) \cup {[t EXCEPT !.st = "filter", !.cnt = 1]}
                 \cup (IF t.cnt > 1 THEN {[t EXCEPT !.cnt = @ - 1]} ELSE {})
    /\ UNCHANGED <<cfg, oracle, now, depVer, up, jobs, done, seen, latestTick, tickDue, startedAt, fetched, shown, hold, nReorg, nCrash, nSpur>>

Internal ==
    \E t \in tasks : Fetch(t) \/ Filter(t) \/ Cancel(t) \/ \E d \in t.duties : SchedOne(t, d)

Next ==
    \/ \E w \in BOOLEAN : Start(w)
    \/ Crash \/ Advance \/ EpochTick
    \/ \E b \in 0..(MaxEpoch + 1) : Reorg(b)
    \/ \E o \in BOOLEAN : HeadEvent(o)
    \/ \E nm \in DOMAIN jobs, h \in BOOLEAN : Fire(nm, h)
    \/ Internal
    \/ \E k \in {"att", "prop"}, on \in BOOLEAN : Hold(k, on)
    \/ \E t \in tasks : Release(t)

Spec == Init /\ [][Next]_vars

-----------------------------------------------------------------------------
(* Invariants (property C03).                                                                   *)
TypeOK ==
    /\ now \in 0..MaxSlot
    /\ \A nm \in DOMAIN jobs : nm[1] \in DutyKinds \cup {"early", "prepepoch"}

\* "timed at the slot start plus the configured delay"
JobTimeRight == \A nm \in DOMAIN jobs : nm[1] # "prepepoch" => jobs[nm].time = JobTime(nm[1], nm[2])

OracleVals(k, n, ver) ==
    CASE k = "att" -> {r.v : r \in {x \in oracle.att : x.e = Epoch(n) /\ x.ver = ver /\ x.slot = n}}
      [] k \in {"prop", "early"} -> {r.v : r \in {x \in oracle.prop : x.e = Epoch(n) /\ x.ver = ver /\ x.slot = n}}
      [] k \in {"syncprep", "syncmsg"} -> {r.v : r \in {x \in oracle.sync : x.p = Period(Epoch(n + 1)) /\ x.ver = ver}}

\* "covering exactly the validators with that duty" (of the reply the job was made from), and
\* "ignores duties outside the requested epoch": there is a job only where the oracle has a duty of that epoch
JobCoversExactly ==
    \A nm \in DOMAIN jobs : nm[1] # "prepepoch" =>
        /\ jobs[nm].vals = OracleVals(nm[1], nm[2], jobs[nm].ver)
        /\ jobs[nm].vals # {}

\* "no slot is ever proposed or attested for twice" (sync messages likewise)
NoSlotTwice == \A x \in DOMAIN done, y \in DOMAIN done : (x.k = y.k /\ x.n = y.n) => (x = y /\ done[x] = 1)

\* "when started or restarted at any point after genesis it schedules only strictly later slots"
OnlyStrictlyLaterOnStart ==
    (up /\ ~startedAt.waited) =>
        \A nm \in DOMAIN jobs : nm[1] \in DutyKinds \cup {"early"} => nm[2] > startedAt.slot

\* sync committee window
SyncWindowRight ==
    \A nm \in DOMAIN jobs : nm[1] \in {"syncprep", "syncmsg"} =>
        LET p == Period(Epoch(nm[2] + 1)) IN
        /\ nm[2] >= First(PeriodStart(p)) - 1
        /\ nm[2] <= First((p + 1) * EP) - 2
        /\ Epoch(nm[2] + 1) >= cfg.fork

EpochTickOnce == latestTick <= Epoch(now)

(* "no obtained future duty is left without a job": at quiescence every duty of the reply last   *)
(* obtained for an epoch / period, for a slot still to come, has its job (or has been run early) *)
Covered(k, n) == <<k, n>> \in DOMAIN jobs \/ \E x \in DOMAIN done : x.k = k /\ x.n = n
NoFutureDutyUnscheduled ==
    (up /\ Quiescent) =>
        \A fk \in DOMAIN fetched :
            LET k == fk[1]
                key == fk[2]
                ver == fetched[fk]
            IN CASE k = "att" -> \A r \in oracle.att : (r.e = key /\ r.ver = ver /\ InEpoch(key, r.slot) /\ r.slot > now) => Covered("att", r.slot)
                 [] k = "prop" -> \A r \in oracle.prop : (r.e = key /\ r.ver = ver /\ InEpoch(key, r.slot) /\ r.slot > now) => Covered("prop", r.slot)
                 [] k = "sync" -> (Epoch(now) >= cfg.fork /\ \E r \in oracle.sync : r.p = key /\ r.ver = ver) =>
                                     \A s \in SyncLo(key)..SyncHi(key) : s > now =>
                                         (<<"syncprep", s>> \in DOMAIN jobs \/ Covered("syncmsg", s))

(* "it replaces the not-yet-run jobs of the affected epoch by jobs for the duties it then        *)
(* obtains": at quiescence no job made from an older reply than the latest one is left, and the  *)
(* latest reply is not older than what a head event has shown                                    *)
JobKey(nm) == CASE nm[1] = "att" -> <<"att", Epoch(nm[2])>>
                [] nm[1] \in {"prop", "early"} -> <<"prop", Epoch(nm[2])>>
                [] nm[1] \in {"syncprep", "syncmsg"} -> <<"sync", Period(Epoch(nm[2] + 1))>>
NoStaleJob ==
    (up /\ Quiescent) =>
        \A nm \in DOMAIN jobs : nm[1] # "prepepoch" =>
            /\ JobKey(nm) \in DOMAIN fetched
            /\ jobs[nm].ver = fetched[JobKey(nm)]
ReorgActedOn ==
    (up /\ Quiescent) =>
        \A fk \in DOMAIN fetched : fk \in DOMAIN shown => fetched[fk] >= shown[fk]
=============================================================================
