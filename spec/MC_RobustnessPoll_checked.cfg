SPECIFICATION PSpec
CONSTANTS
  Designs = {"checked"}
  Styles = {"best", "deadline"}
  Scripts = "lattice"
INVARIANTS PTypeOK KeepsRunning FirstIsEligible CallerSeesNoPanic
CHECK_DEADLOCK FALSE
