-------------------------- MODULE Scen_SyncPaths --------------------------
(* Scenario generator for the scheduling-path family of C15: behaviours of SyncPaths with a      *)
(* history variable.  A behaviour is printed as JSON when it has ScenLen steps or the clock has   *)
(* reached MaxSlot.  ForceHeads keeps the clock in the first epoch of a period (other than the    *)
(* chain's first) until two head events have arrived there (refresh-centred constant sets).       *)
EXTENDS SyncPaths, Sequences, Json

CONSTANTS ScenLen, ForceHeads
VARIABLE hist
svars == <<vars, hist>>

NP == Cardinality(Periods)
LifeJson(L) == {[v |-> v, exit |-> L[v].exit, wd |-> L[v].wd, slashed |-> L[v].slashed] : v \in Validators}

SInit == Init /\ hist = <<[ev |-> "Reset", spe |-> SPE, epp |-> EPP, prep |-> Prep, fork |-> fork, start |-> start,
                           acct |-> acct, comm |-> [i \in 1 .. NP |-> comm[i - 1]], life |-> LifeJson(life)]>>

H(e) == hist' = Append(hist, e)

HeadsWanted == ForceHeads /\ up /\ CurEp % EPP = 0 /\ CurEp # 0 /\ cnt.heads < 2 /\ cnt.heads < MaxHeads

SNext ==
    /\ Len(hist) <= ScenLen
    /\ \/ Start /\ H([ev |-> "Start"])
       \/ Tick /\ H([ev |-> "Tick", epoch |-> CurEp])
       \/ RefreshAccounts /\ H([ev |-> "RefreshAccounts"])
       \/ Cardinality(ran) < MaxRan /\ RunSlot /\ H([ev |-> "RunSlot", slot |-> now, by |-> jobs[now].by, n |-> Cardinality(jobs[now].acc),
                                                               nv |-> Cardinality(jobs[now].nv), st |-> jobs[now].st])
       \/ CurEp \in HeadEpochs /\ \E r \in Roots : Head(r) /\ H([ev |-> "Head", root |-> r])
       \/ ~HeadsWanted /\ \E to \in {now + d : d \in Steps} \cup JumpTargets : Advance(to) /\ H([ev |-> "Advance", to |-> to])
       \/ \E v \in Varying : \/ SlashV(v) /\ H([ev |-> "Slash", v |-> v, x |-> CurEp + 2])
                             \/ \E x \in ExitEpochs : ExitV(v, x) /\ H([ev |-> "Exit", v |-> v, x |-> x])

SSpec == SInit /\ [][SNext]_svars

Emit == (Len(hist) = ScenLen + 1 \/ (now = MaxSlot /\ Len(hist) > 3)) => PrintT(ToJson(hist))
=============================================================================
