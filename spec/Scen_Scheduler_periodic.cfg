SPECIFICATION SSpec
CONSTANTS
  Callers = {"c1", "c2"}
  Cancellers = {"k1"}
  Periodic = TRUE
  DeleteByName = FALSE
  ClaimIgnoresCancel = FALSE
  PrefixCancellers = {}
  BlockingSend = FALSE
  DropOnClaim = FALSE
  MaxRuns = 3
  ScenLen = 22
INVARIANTS Emit
CHECK_DEADLOCK FALSE
