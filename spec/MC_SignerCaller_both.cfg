SPECIFICATION CSpec
CONSTANTS
  SlotsPerEpoch = 32
  Slots = {0}
  GivenEpochs = {0}
  MaxBatch = 3
  NReq = 2
  ForkEpochs = {10}
  NVal = 3
  Committees = {1, 2}
  CallerSlots = {319, 320}
  MaxDuty = 3
  Pairing = "by_validator"
  Sequential = TRUE
  CallerOps <- OpsBoth
  AcctChoices <- AcctAll
INVARIANTS TypeOK CallerTypeOK DomainRight Memoryless HandedOwn SigCorrect NoSignatureWithoutDomain ErrorHasNoSignatures RefusedForCause PairedOwn SubmittedRight
PROPERTIES ReplyStable
CHECK_DEADLOCK FALSE
