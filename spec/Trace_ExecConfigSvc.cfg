SPECIFICATION TraceSpec
CONSTANTS
  Calls = {1, 2, 3, 4, 5, 6, 7, 8, 9, 10, 11, 12}
  DocIds = {1, 2, 3, 4, 5}
  FailKinds = {"error", "malformed"}
  MaxFetches = 99
  MaxOpen = 12
  Overlap = TRUE
  Design = "resolve"
INVARIANTS TypeOK UsesInForce SequentialRight
CONSTRAINT HWM
POSTCONDITION TraceAccepted
CHECK_DEADLOCK FALSE
