SPECIFICATION Spec
CONSTANTS
  Chain = {0, 1, 2, 3, 4}
  OursSets = {{2, 3, 4}, {0, 2, 3}}
  Managers = {"wallet", "dirk"}
  VMDesigns = {"replace", "retain"}
  SPE = 32
  Epochs = {2, 3}
  StrictVM = TRUE
  AllOffers = TRUE
  Lean = TRUE
INVARIANTS TypeOK SignedByAssignee OnlyOurs MapsInStep ViewSound
CHECK_DEADLOCK FALSE
