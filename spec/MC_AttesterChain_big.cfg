SPECIFICATION Spec
CONSTANTS
  Chain = {0, 1, 2, 3, 4}
  OursSets = {{2, 3, 4}, {0, 2, 3}, {0, 1, 4}}
  Managers = {"wallet", "dirk"}
  VMDesigns = {"replace", "retain"}
  SPE = 32
  Epochs = {2}
  StrictVM = TRUE
  AllOffers = TRUE
  Lean = FALSE
INVARIANTS TypeOK SignedByAssignee OnlyOurs MapsInStep ViewSound
CHECK_DEADLOCK FALSE
