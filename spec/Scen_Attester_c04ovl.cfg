SPECIFICATION SSpec
CONSTANTS
  RunIds = {1, 2, 3, 4}
  SlotsPerEpoch = 32
  Roots = {1, 2}
  Strict01 = TRUE
  Strict04 = TRUE
  ScenMode = "c04ovl"
  ScenLen = 44
  ScenVals = {1, 2, 3, 4}
  ScenMaxLen = 3
  ScenSlots = {70, 71, 95, 96, 100}
  ScenComms = {0, 1, 2}
  ScenPrepSlot = 66
INVARIANTS Emit AssignmentExact SignAssignmentExact UnsignedYieldNothing
CHECK_DEADLOCK FALSE
