----------------------------- MODULE Scen_Vouch -----------------------------
(* Scenario generator for Vouch.tla.  A scenario is the ENVIRONMENT part of a behaviour of the    *)
(* composition: the clock (Phase = the slot's attestation time passes, Advance = next slot),      *)
(* reorgs (the duties of an epoch get their next version), head events (a beacon node reports the *)
(* head of the current slot with the roots in force), and which attestation jobs met a slow       *)
(* beacon node (their body was still under way when the slot ended).  The driver replays it in    *)
(* real time on the real controller + real scheduler + real attester; what the jobs, the timers   *)
(* and the controller's goroutines then do is theirs (and is recorded and validated).             *)
EXTENDS MC_Vouch, Json

CONSTANTS ScenHeads

VARIABLES hist, fin
svars == <<vars, hist, fin>>

\* the oracle as a list of records for the scripted beacon node
DutyTable == {[e |-> k[1], w |-> k[2], v |-> v, slot |-> First(k[1]) + oracle[k][v]] : k \in DOMAIN oracle, v \in Validators}

SInit ==
    /\ Init
    /\ fin = FALSE
    /\ hist = <<[ev |-> "Reset", p |-> P, start |-> StartSlot, last |-> MaxSlot, ft |-> ft, vals |-> Validators, duties |-> DutyTable]>>

H(e) == hist' = Append(hist, e)
SlowSlots == {jobs[id].slot : id \in JobsIn({"body", "signed"})}

\* head events of the current half slot so far (at most ScenHeads per half slot: a few beacon nodes)
RECURSIVE HeadsNow(_)
HeadsNow(h) == IF h = <<>> \/ h[Len(h)].ev \in {"Reset", "Advance", "Phase"} THEN 0
               ELSE (IF h[Len(h)].ev = "Head" THEN 1 ELSE 0) + HeadsNow(SubSeq(h, 1, Len(h) - 1))

SEnv ==
    \/ PhaseUp /\ H([ev |-> "Phase"])
    \/ Advance /\ H([ev |-> "Advance", slow |-> SlowSlots])
    \* (environment events are rare among the many internal steps: weighted)
    \/ \E n \in 1..3 : HeadsNow(hist) < ScenHeads /\ HeadEvent /\ H([ev |-> "Head"])
    \/ \E e \in 0..MaxEpoch : Reorg(e) /\ H([ev |-> "Reorg", e |-> e])

SNext ==
    /\ ~fin
    /\ \/ /\ now = MaxSlot /\ phase = 1 /\ ~EagerEnabled
          /\ fin' = TRUE /\ UNCHANGED vars /\ UNCHANGED hist
       \/ /\ UNCHANGED fin
          /\ IF EagerEnabled THEN Eager /\ UNCHANGED hist
             ELSE SEnv \/ (IntSteps /\ UNCHANGED hist)

SSpec == SInit /\ [][SNext]_svars

Emit == fin => PrintT(ToJson(hist))
=============================================================================
