--------------------------- MODULE Trace_Robustness ---------------------------
(* Trace specification for C16.  Lines recorded by the drivers (overlay/verifdrivers/c16):          *)
(*   Reset                          a new scenario                                                  *)
(*   Call{ep, shape}                written and flushed BEFORE the real code is entered             *)
(*   Decoded{ep, accepted}          Vouch's own decoder returned (entry points that call it directly)*)
(*   Use{ep, use, outcome}          a consumer of the decoded value ran: lookup | register | auction *)
(*   Aux{ep, req, at, answer, delivered}  the real code made the auxiliary request req at provider `at`  *)
(*                                  (logged by the fake provider when it is really called) and was   *)
(*                                  given `answer`; delivered = value | fault: what it got back         *)
(*   Poll{ep, relay, n, answer}     the real code asked scripted relay `relay` for the n-th time within this   *)
(*                                  call (logged by the relay when it is really asked, before it answers) and  *)
(*                                  was given `answer`                                                         *)
(*   Outcome{ep, outcome}           the duty ended: ok | error | fallback (only accepted once the    *)
(*                                  input was consumed end to end: Robustness!Consumed)              *)
(*   Undeliverable{ep}              the real library decoder does not deliver this (gated) shape    *)
(*   DecoderPanic{ep, decoder, via} the HTTP decoding layer of a client library panicked (no value    *)
(*                                  is delivered to Vouch; outside the property's quantifier)         *)
(*   Crash{ep, text, frame, fatal}  a panic recovered in the calling goroutine (fatal = FALSE) or    *)
(*                                  the death of the child process (fatal = TRUE)                    *)
(*   Stuck{ep}                      the scenario did not end within the watchdog time                *)
(* There is no trace action for Crash and none for Stuck ("the affected duty ENDS with an error or a   *)
(* fallback"), so a trace containing one is rejected at that line.                                    *)
EXTENDS Robustness, TraceLib

VARIABLE l
tvars == <<vars, l>>

TraceInit == l = 1 /\ Init /\ InitHWM

IsEvent(e) == l <= TraceLen /\ Trace[l].ev = e /\ l' = l + 1

TraceReset ==
    /\ IsEvent("Reset")
    /\ pending' = NoCall /\ progress' = NoProgress /\ last' = NoOutcome /\ alive' = TRUE

TraceCall ==
    /\ IsEvent("Call")
    /\ Call(Trace[l].ep, Trace[l].shape)

TraceDecoded ==
    /\ IsEvent("Decoded")
    /\ pending.ep = Trace[l].ep
    /\ Decoded(Trace[l].accepted)

TraceUse ==
    /\ IsEvent("Use")
    /\ pending.ep = Trace[l].ep
    /\ Use(Trace[l].use, Trace[l].outcome)

\* the fake can only give the answer the model chose for this input, and a fault answer delivers a fault
TraceAux ==
    /\ IsEvent("Aux")
    /\ pending.ep = Trace[l].ep
    /\ Trace[l].delivered = AuxClass(Trace[l].answer)
    /\ Aux([req |-> Trace[l].req, at |-> Trace[l].at, answer |-> Trace[l].answer])

\* the relay can only give the answer the model chose for the n-th poll of this input
TracePoll ==
    /\ IsEvent("Poll")
    /\ pending.ep = Trace[l].ep
    /\ Trace[l].n >= 1
    /\ LET n == IF Trace[l].n > MaxPoll THEN MaxPoll ELSE Trace[l].n
       IN  /\ Trace[l].relay \in Relays
           /\ Trace[l].answer = PollAnswer(pending.ep, pending.shape, Trace[l].relay, n)
           /\ Poll(Trace[l].relay, n)

TraceOutcome ==
    /\ IsEvent("Outcome")
    /\ pending.ep = Trace[l].ep
    /\ Return(Trace[l].outcome)

TraceUndeliverable ==
    /\ IsEvent("Undeliverable")
    /\ pending.ep = Trace[l].ep
    /\ Undeliverable

TraceDecoderPanic ==
    /\ IsEvent("DecoderPanic")
    /\ pending.ep = Trace[l].ep
    /\ DecoderPanic

TraceNext == TraceReset \/ TraceCall \/ TraceAux \/ TracePoll \/ TraceDecoded \/ TraceUse \/ TraceOutcome \/ TraceUndeliverable \/ TraceDecoderPanic

TraceSpec == TraceInit /\ [][TraceNext]_tvars

HWM == UpdateHWM(l)
TraceAccepted == TraceAcceptedUpTo
=============================================================================
