SPECIFICATION SSpec
CONSTANTS
  SlotsPerEpoch = 2
  EpochsPerPeriod = 2
  Forks = {0, 1, 2, 3}
  Nows = {0, 1, 2, 3, 4, 5, 6, 7, 8, 9, 10, 11}
  ScheduleEpochs = {0, 1, 2, 3, 4, 5, 6}
  Members = {1, 2}
  IndexSets = {{0}, {1, 5}}
  Sizes = {8}
  SubnetCounts = {4}
  Targets = {2}
  Roots = {1}
  HVals = {0, 1}
  HMod = 840
  MaxSched = 3
  FaultKinds = {}
  Deviation = "none"
  MaxFired = 1
  ScenLen = 6
  SetupLen = 1
INVARIANTS Emit TypeOK EverySlotOfWindow OnlySlotsOfWindow SignedOverObtainedRoot MembersIndependent AggregatorRuleExact
CHECK_DEADLOCK FALSE
