SPECIFICATION Spec
CONSTANTS
  Variants = {"deadline"}
  Relays = {1, 2}
  FetchSet = {}
  Values = {0, 1, 2}
  CfgSet <- MCCfgPair
  TableSet = {"A"}
  BuilderSet = {"std", "half"}
  AnswerSet <- MCAnswersLean
  Headers = {1, 2}
  MaxRounds = 2
  Keys = {1}
  MaxAuctions = 1
  MaxOpen = 1
  Deviation = "none"
INVARIANTS TypeOK WinnerIsArgmax OnlyEligibleWin ProvidersOfferedWinner NoWinnerIffNone ParticipationSound ArrivedConsidered CacheRight ServedRight HistoryShape
