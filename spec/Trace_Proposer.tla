--------------------------- MODULE Trace_Proposer ---------------------------
(* Trace specification for C05: a trace recorded at the interfaces of the real                  *)
(* beaconblockproposer/standard.Service is a behaviour of Proposer.tla's actions, instantiated   *)
(* with the arguments the code really passed; every invariant of Proposer.tla (= property C05)  *)
(* is evaluated after every line.  One line per interface call, written by the fake under the   *)
(* scenario's lock at the time of the call (so the file order is the order of the calls, also   *)
(* for the concurrent relay goroutines).                                                        *)
(* A scenario is the history of ONE service instance: Reset (the service is built, the first    *)
(* duty object is made and Prepare called for it), NewDuty for every further duty object, and   *)
(* the lines of the calls Prepare (.. PrepRet) and Propose (ProposeCall .. Ret) for them, in the *)
(* order in which they happened.  Calls overlap: every line carries the duty object h it belongs *)
(* to, and the driver writes a Switch line whenever the next line belongs to another duty object *)
(* than the one before; the invariants are evaluated on the pipeline of the duty object whose    *)
(* call the line belongs to, against THAT object's duty.  A call that neither went on nor        *)
(* returned is logged by the driver's watchdog as Hung, a call whose goroutine panicked as Crash:   *)
(* lines that no action explains.                                                                *)
EXTENDS Proposer, TraceLib

VARIABLE l
tvars == <<vars, l>>

TraceInit ==
    /\ l = 1
    /\ k = 1 /\ cur = 1 /\ parked = NoneParked /\ past = {}
    /\ duty = [slot |-> 0, v |-> 0]
    /\ cfg = [graffiti |-> FALSE, nodeclient |-> FALSE, auctioneer |-> FALSE, unblindAll |-> FALSE,
              strategy |-> "opaque", conf |-> {}]
    /\ pc = "done"
    /\ acct = NoAcct /\ randao = NoRandao /\ graffiti = "none" /\ nodeclient = "none" /\ auction = NoAuction
    /\ preq = NoPreq /\ prop = NoProp /\ sreq = NoSreq /\ sig = 0
    /\ calls = [r \in Relays |-> 0] /\ sent = {} /\ fulls = {}
    /\ cancelled = FALSE /\ submitted = NoSub /\ subout = "none"
    /\ InitHWM

T == Trace[l]

\* a line belongs to the duty object whose pipeline is loaded (the Switch lines see to that)
IsEvent(e) == l <= TraceLen /\ Trace[l].ev = e /\ l' = l + 1 /\ (e \notin {"Reset", "NewDuty", "Switch"} => T.h = cur)

RootOf(x) == [id |-> x.id, kind |-> x.kind]
PropOf(x) == [version |-> x.version, blinded |-> x.blinded, slot |-> x.slot, id |-> x.id]
QOf(x) == [version |-> x.version, containers |-> x.containers, id |-> x.id, sig |-> x.sig, intact |-> x.intact]
DescOf(x) == [src |-> x.src, version |-> x.version, blinded |-> x.blinded, containers |-> x.containers,
              id |-> x.id, sig |-> x.sig, relay |-> x.relay, q |-> QOf(x.q), intact |-> x.intact]

TraceReset ==
    /\ IsEvent("Reset")
    /\ k' = 1 /\ cur' = 1 /\ parked' = NoneParked /\ past' = {}
    /\ duty' = [slot |-> T.slot, v |-> T.v]
    /\ cfg' = [graffiti |-> T.cfg.graffiti, nodeclient |-> T.cfg.nodeclient, auctioneer |-> T.cfg.auctioneer,
               unblindAll |-> T.cfg.unblindAll, strategy |-> T.cfg.strategy, conf |-> SeqToSet(T.cfg.conf)]
    /\ ResetPipeline

TraceAccounts == IsEvent("Accounts") /\ AccountsCall(T.epoch, T.idxs, T.out)
TraceRandao   == IsEvent("Randao") /\ RandaoCall(T.account, T.slot, T.out, T.token)
TracePrepRet  == IsEvent("PrepRet") /\ PrepRet
TracePropose  == IsEvent("ProposeCall") /\ ProposeCall
TraceDrop     == IsEvent("Drop") /\ Drop
TraceGraffiti == IsEvent("Graffiti") /\ T.out \in {"static", "template", "err"} /\ GraffitiCall(T.out)
TraceNodeClient == IsEvent("NodeClient") /\ T.out \in {"ok", "err"} /\ NodeClientCall(T.out)
\* the auction as a component (cfg.strategy # "opaque": the real block relay and builder-bid strategy): the block
\* relay's account lookup, every request for a bid a relay received while the auction was going on, and - also for
\* the opaque auctioneer - what AuctionBlock returned to the proposer (err / results / nilnil)
TraceAuctionStart == IsEvent("AuctionStart") /\ T.out \in {"ok", "err"} /\ AuctionStart(T.out)
TraceBid      == IsEvent("Bid") /\ T.relay \in Relays /\ T.out \in BidOuts /\ BidCall(T.relay, T.out)
TraceAuction  == IsEvent("Auction") /\ T.out \in {"err", "results", "nilnil"}
                 /\ AuctionCall(T.out, SeqToSet(T.all), SeqToSet(T.providers))
TraceProposal == IsEvent("Proposal") /\ ProposalCall(T.slot, T.zerograffiti, T.reveal, T.out, PropOf(T.p))
TraceSign     == IsEvent("Sign") /\ SignCall(T.account, T.slot, T.v, RootOf(T.parent), RootOf(T.state),
                                             RootOf(T.body), T.out, T.token)
TraceUnblind  == IsEvent("Unblind") /\ T.relay \in Relays /\ UnblindCall(T.relay, QOf(T.q), T.out)
TraceCancel   == IsEvent("Cancel") /\ Cancel
TraceSubmit   == IsEvent("Submit") /\ SubmitCall(DescOf(T.desc), T.out)
TraceRet      == IsEvent("Ret") /\ Ret
\* the same service instance gets another duty object (and Prepare is called for it)
TraceNewDuty  == IsEvent("NewDuty") /\ T.h = k + 1 /\ NewDuty(T.slot, T.v)
\* the next lines belong to another duty object
TraceSwitch   == IsEvent("Switch") /\ Switch(T.h)

TraceNext ==
    \/ TraceReset \/ TraceAccounts \/ TraceRandao \/ TracePropose \/ TraceGraffiti \/ TraceAuction
    \/ TraceProposal \/ TraceSign \/ TraceUnblind \/ TraceCancel \/ TraceSubmit \/ TraceRet
    \/ TraceNodeClient \/ TraceNewDuty \/ TraceSwitch \/ TracePrepRet \/ TraceDrop
    \/ TraceAuctionStart \/ TraceBid

TraceSpec == TraceInit /\ [][TraceNext]_tvars

HWM == UpdateHWM(l)
TraceAccepted == TraceAcceptedUpTo
=============================================================================
