--------------------------- MODULE Trace_Proposer ---------------------------
(* Trace specification for C05: a trace recorded at the interfaces of the real                  *)
(* beaconblockproposer/standard.Service is a behaviour of Proposer.tla's actions, instantiated   *)
(* with the arguments the code really passed; every invariant of Proposer.tla (= property C05)  *)
(* is evaluated after every line.  One line per interface call, written by the fake under the   *)
(* scenario's lock at the time of the call (so the file order is the order of the calls, also   *)
(* for the concurrent relay goroutines).                                                        *)
(* A scenario is the history of ONE service instance: Reset (the service is built, first duty), *)
(* the lines of the first duty up to Ret, then for every further duty NextDuty and its lines up *)
(* to Ret.  NextDuty is only possible once Propose has returned (pc = "done"); a Propose that   *)
(* did not return is logged by the driver's watchdog as Hung, which no action explains.         *)
EXTENDS Proposer, TraceLib

VARIABLE l
tvars == <<vars, l>>

TraceInit ==
    /\ l = 1
    /\ k = 1 /\ past = {}
    /\ duty = [slot |-> 0, v |-> 0]
    /\ cfg = [graffiti |-> FALSE, nodeclient |-> FALSE, auctioneer |-> FALSE, unblindAll |-> FALSE]
    /\ pc = "done"
    /\ acct = NoAcct /\ randao = NoRandao /\ graffiti = "none" /\ nodeclient = "none" /\ auction = NoAuction
    /\ preq = NoPreq /\ prop = NoProp /\ sreq = NoSreq /\ sig = 0
    /\ calls = [r \in Relays |-> 0] /\ sent = {} /\ fulls = {}
    /\ cancelled = FALSE /\ submitted = NoSub /\ subout = "none"
    /\ InitHWM

IsEvent(e) == l <= TraceLen /\ Trace[l].ev = e /\ l' = l + 1

T == Trace[l]

RootOf(x) == [id |-> x.id, kind |-> x.kind]
PropOf(x) == [version |-> x.version, blinded |-> x.blinded, slot |-> x.slot, id |-> x.id]
QOf(x) == [version |-> x.version, containers |-> x.containers, id |-> x.id, sig |-> x.sig, intact |-> x.intact]
DescOf(x) == [src |-> x.src, version |-> x.version, blinded |-> x.blinded, containers |-> x.containers,
              id |-> x.id, sig |-> x.sig, relay |-> x.relay, q |-> QOf(x.q), intact |-> x.intact]

TraceReset ==
    /\ IsEvent("Reset")
    /\ k' = 1 /\ past' = {}
    /\ duty' = [slot |-> T.slot, v |-> T.v]
    /\ cfg' = [graffiti |-> T.cfg.graffiti, nodeclient |-> T.cfg.nodeclient, auctioneer |-> T.cfg.auctioneer,
               unblindAll |-> T.cfg.unblindAll]
    /\ ResetPipeline

TraceAccounts == IsEvent("Accounts") /\ AccountsCall(T.epoch, T.idxs, T.out)
TraceRandao   == IsEvent("Randao") /\ RandaoCall(T.account, T.slot, T.out, T.token)
TracePropose  == IsEvent("ProposeCall") /\ ProposeCall
TraceGraffiti == IsEvent("Graffiti") /\ T.out \in {"static", "template", "err"} /\ GraffitiCall(T.out)
TraceNodeClient == IsEvent("NodeClient") /\ T.out \in {"ok", "err"} /\ NodeClientCall(T.out)
TraceAuction  == IsEvent("Auction") /\ AuctionCall(T.out, SeqToSet(T.all), SeqToSet(T.providers))
TraceProposal == IsEvent("Proposal") /\ ProposalCall(T.slot, T.zerograffiti, T.reveal, T.out, PropOf(T.p))
TraceSign     == IsEvent("Sign") /\ SignCall(T.account, T.slot, T.v, RootOf(T.parent), RootOf(T.state),
                                             RootOf(T.body), T.out, T.token)
TraceUnblind  == IsEvent("Unblind") /\ T.relay \in Relays /\ UnblindCall(T.relay, QOf(T.q), T.out)
TraceCancel   == IsEvent("Cancel") /\ Cancel
TraceSubmit   == IsEvent("Submit") /\ SubmitCall(DescOf(T.desc), T.out)
TraceRet      == IsEvent("Ret") /\ Ret
\* the same service instance gets its next duty: only after Propose has returned for the current one
TraceNextDuty == IsEvent("NextDuty") /\ NextDuty(T.slot, T.v)

TraceNext ==
    \/ TraceReset \/ TraceAccounts \/ TraceRandao \/ TracePropose \/ TraceGraffiti \/ TraceAuction
    \/ TraceProposal \/ TraceSign \/ TraceUnblind \/ TraceCancel \/ TraceSubmit \/ TraceRet
    \/ TraceNodeClient \/ TraceNextDuty

TraceSpec == TraceInit /\ [][TraceNext]_tvars

HWM == UpdateHWM(l)
TraceAccepted == TraceAcceptedUpTo
=============================================================================
