SPECIFICATION InstSpec
CONSTANTS
  MaxN = 4
  Variants = {"Best", "Majority", "RootMajority", "First"}
  Values = {1, 2}
  Scores = {0, 1, 2}
  FirstCap = 0
INVARIANTS TypeOK ReturnsByHard BestIsMax MajorityRule FirstIsSome ErrorIffNothing InvalidNeverReturned
PROPERTIES Termination EveryCallReturns HistoryIndependent
