SPECIFICATION TraceSpec
CONSTANTS
  RunIds = {1, 2, 3, 4, 5, 6}
  SlotsPerEpoch = 32
  Roots = {1, 2}
  Strict01 = TRUE
  Strict04 = FALSE
INVARIANTS NoDoubleSign NoDoubleVote SignedDataSound RefusedMeansNoSign
PROPERTY TraceAttestedMonotone
CONSTRAINT HWM
POSTCONDITION TraceAccepted
CHECK_DEADLOCK FALSE
