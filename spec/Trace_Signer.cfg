SPECIFICATION TraceSpec
CONSTANTS
  SlotsPerEpoch = 32
  Slots = {0}
  GivenEpochs = {0}
  MaxBatch = 8
  NReq = 3
  ForkEpochs = {0}
INVARIANTS TypeOK DomainRight Memoryless HandedOwn SigCorrect NoSignatureWithoutDomain ErrorHasNoSignatures RefusedForCause
PROPERTIES TraceReplyStable
CONSTRAINT HWM
POSTCONDITION TraceAccepted
CHECK_DEADLOCK FALSE
