SPECIFICATION TraceSpec
CONSTANTS
  SlotsPerEpoch = 32
  Slots = {0}
  GivenEpochs = {0}
  MaxBatch = 8
INVARIANTS TypeOK DomainRight SigCorrect NoSignatureWithoutDomain ErrorHasNoSignatures
CONSTRAINT HWM
POSTCONDITION TraceAccepted
CHECK_DEADLOCK FALSE
