SPECIFICATION CSpec
CONSTANTS
  SlotsPerEpoch = 32
  Slots = {319, 320}
  GivenEpochs = {9}
  MaxBatch = 1
  NReq = 3
  ForkEpochs = {10}
  StoreRechecks = FALSE
  CacheOps = {"attestation", "randao"}
INVARIANTS TypeOK DomainRight Memoryless HandedOwn SigCorrect NoSignatureWithoutDomain ErrorHasNoSignatures RefusedForCause
PROPERTIES HitIsRecall
CHECK_DEADLOCK FALSE
