SPECIFICATION Spec
CONSTANTS
  MaxSlot = 3
  MaxVer = 2
  MaxReorgs = 2
  MaxCrashes = 0
  Gates = {}
  Interleave = FALSE
  Cfgs <- MCCfgsOne
  OraclesFor <- MCOraclesA
  MaxAccts = 1
  AnswersFor <- MCAnswers
  Deviation = {"LeakPropLock"}
INVARIANTS TypeOK JobTimeRight JobCoversExactly NoSlotTwice OneJobPerDutySlot OnlyStrictlyLaterOnStart SyncWindowRight EpochTickOnce NoFutureDutyUnscheduled NoStaleJob ReorgActedOn RefreshCompletes
CHECK_DEADLOCK FALSE
