SPECIFICATION SSpec
CONSTANTS
  SlotsPerEpoch = 32
  Slots = {31, 100, 1000000007}
  GivenEpochs = {3, 31250000}
  MaxBatch = 4
  NReq = 1
  ForkEpochs = {0}
INVARIANTS Emit
CHECK_DEADLOCK FALSE
