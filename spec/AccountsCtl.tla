----------------------------- MODULE AccountsCtl -----------------------------
(* Control designs for C13 (vacuity self-check of checks/C13.py).                                 *)
(*                                                                                                *)
(* Each design below answers every query correctly on a FRESH pair of instances (one refresh that *)
(* took some accounts, then queries, nothing overlapping: FreshOnly = TRUE passes every           *)
(* invariant) and is wrong only through state that earlier calls of the history left on the       *)
(* long-lived instances, or through the overlap of a query with the refresh job.  With            *)
(* FreshOnly = FALSE TLC must reject each of them:                                                *)
(*                                                                                                *)
(*  "direct"  the by-index forms ask the validators manager BY INDEX and map every validator it   *)
(*            returns to accounts[key] without looking whether the account is (still) held.  The  *)
(*            validators manager keeps its table through a failed / empty refresh, and a request  *)
(*            without keys fills it with everybody's validators: an index of a validator that is  *)
(*            not, or no longer, ours comes back with a missing (nil) account.                    *)
(*            (seeded/C13-byindex-bypasses-known-accounts)                           NoStrangers  *)
(*  "split"   the query takes the KEYS of the held accounts when it is called and looks the       *)
(*            accounts up again when it has the validators: a refresh that ran in between and     *)
(*            dropped an account leaves a missing (nil) account under that validator's index.     *)
(*                                                                                   NoStrangers  *)
(*  "memo"    replies are memoised per (kind, epoch, indices) on the instance and a refresh does  *)
(*            not drop them: the second query of the history with the same arguments is answered  *)
(*            from what the instances held before the refresh.                      ExactlyActive *)
EXTENDS Accounts

CONSTANTS Design,     \* "direct" | "split" | "memo"
          FreshOnly   \* TRUE: one refresh, then queries, no overlap (the designs are right there)

VARIABLES memo,       \* design state carried on the instance - NOT part of Persistent
          nref        \* refreshes so far

cvars == <<vars, memo, nref>>

NilName == <<"?", <<"nil">>>>

W(a) == <<"W", a>>
CNames == {W(<<"a">>), W(<<"b">>), W(<<"a", "b">>)}
CCfg == <<[w |-> "W", form |-> "wallet"]>>
COffers == {{}, CNames, {W(<<"a">>), W(<<"a", "b">>)}, {W(<<"b">>)}}
Rec(i, act, exit, wd) == [index |-> i, elig |-> 0, act |-> act, exit |-> exit, wd |-> wd, slashed |-> FALSE, bal0 |-> FALSE]
R1 == (W(<<"a">>) :> Rec(11, 0, FFE, FFE)) @@ (W(<<"b">>) :> Rec(12, 0, 2, 3)) @@ (W(<<"a", "b">>) :> Rec(13, 1, FFE, FFE))
R2 == (W(<<"a">>) :> Rec(11, 0, 2, 3)) @@ (W(<<"a", "b">>) :> Rec(13, 0, FFE, FFE))
COuts == {[mode |-> "err", recs |-> NoVals], [mode |-> "ok", recs |-> NoVals],
          [mode |-> "ok", recs |-> R1], [mode |-> "ok", recs |-> R2]}
CEpochs == {0, 1, 2}
CIdxs == {{11, 12}, {12, 13, 999}}

Wanted(kind, r, e) == StateAt(r, e) \in (IF kind \in ValidatingKinds THEN ValidatingStates ELSE SyncStates)

\* "direct": ValidatorsByIndex(indices), then accounts[validator.PublicKey]
DirectReply(kind, e, idxs, k, v) ==
    IF kind \in ByIndexKinds
    THEN {<<v[n].index, IF n \in k THEN n ELSE NilName>> :
              n \in {m \in DOMAIN v : v[m].index \in idxs /\ Wanted(kind, v[m], e)}}
    ELSE ReplyFor(kind, e, idxs, k, v)

\* "split": keys k1 taken at the call, accounts k2 looked up at the return
SplitReply(kind, e, idxs, k1, v, k2) ==
    {<<v[n].index, IF n \in k2 THEN n ELSE NilName>> :
         n \in {m \in k1 \cap DOMAIN v : /\ Wanted(kind, v[m], e)
                                         /\ kind \in ByIndexKinds => v[m].index \in idxs}}

CInit ==
    /\ mgr \in {"wallet", "dirk"}
    /\ cfg = CCfg
    /\ known = {}
    /\ vals = NoVals
    /\ ref = Idle
    /\ open = NoOpen
    /\ last = NoReply
    /\ memo = [x \in {} |-> {}]
    /\ nref = 0

CRefresh ==
    /\ UNCHANGED memo
    /\ \/ /\ FreshOnly
          /\ nref = 0
          /\ nref' = 1
          /\ \E offer \in COffers \ {{}}, out \in COuts : Refresh(offer, out)
       \/ /\ ~FreshOnly
          /\ nref' = nref
          /\ \/ \E offer \in COffers, out \in COuts : Refresh(offer, out)
             \/ \E offer \in COffers : \E k \in AccountsAfter(mgr, cfg, known, offer) : RefreshAccountsTo(offer, k)
             \/ \E out \in COuts : RefreshValidators(out)

\* a query with nothing in between
CQuery(kind, e, idxs) ==
    /\ UNCHANGED <<mgr, cfg, known, vals, ref, open, nref>>
    /\ CASE Design = "direct" ->
              /\ last' = QueryRec(kind, e, idxs, DirectReply(kind, e, idxs, known, vals), {known}, {vals})
              /\ UNCHANGED memo
         [] Design = "split" ->
              /\ last' = QueryRec(kind, e, idxs, SplitReply(kind, e, idxs, known, vals, known), {known}, {vals})
              /\ UNCHANGED memo
         [] Design = "memo" ->
              LET key == <<kind, e, idxs>>
                  reply == IF key \in DOMAIN memo THEN memo[key] ELSE ReplyFor(kind, e, idxs, known, vals)
              IN /\ last' = QueryRec(kind, e, idxs, reply, {known}, {vals})
                 /\ memo' = IF key \in DOMAIN memo THEN memo ELSE memo @@ (key :> reply)

\* a query that the refresh job overlaps ("split" only; the other designs answer at the call)
CQueryCall(kind, e, idxs) ==
    /\ ~FreshOnly
    /\ Design = "split"
    /\ open = NoOpen
    /\ open' = [st |-> "open", kind |-> kind, epoch |-> e, idxs |-> idxs, ks |-> {known}, vs |-> {vals}, k1 |-> known]
    /\ UNCHANGED <<mgr, cfg, known, vals, ref, last, memo, nref>>

CQueryReturn ==
    /\ open.st = "open"
    /\ \E v \in open.vs :
          last' = QueryRec(open.kind, open.epoch, open.idxs,
                           SplitReply(open.kind, open.epoch, open.idxs, open.k1, v, known), open.ks, open.vs)
    /\ open' = NoOpen
    /\ UNCHANGED <<mgr, cfg, known, vals, ref, memo, nref>>

CNext ==
    \/ CRefresh
    \/ \E kind \in Kinds, e \in CEpochs, idxs \in CIdxs :
          /\ (FreshOnly => nref = 1 /\ known # {})
          /\ CQuery(kind, e, idxs) \/ CQueryCall(kind, e, idxs)
    \/ CQueryReturn

CSpec == CInit /\ [][CNext]_cvars

\* bounds: what an overlapped query may have seen; memoised replies
CBound == /\ open.st = "open" => Cardinality(open.ks) <= 3 /\ Cardinality(open.vs) <= 3
          /\ Cardinality(DOMAIN memo) <= 2
=============================================================================
