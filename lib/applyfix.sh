#!/bin/sh
# lib/applyfix.sh <fixes/X.patch> — coordinator tool: apply a repair to /repo as one "fix:" commit
# after building and running the touched packages' existing tests.
set -e
P=$(readlink -f "$1"); M="${P%.patch}.msg"
export GOFLAGS=-mod=mod GOPROXY=off GOSUMDB=off GOTOOLCHAIN=local
cd /repo
test -z "$(git status --porcelain)" || { echo "/repo not clean"; git status --short; exit 1; }
git apply --check "$P"
git apply "$P"
PK=$(git diff --name-only | xargs -n1 dirname | sort -u | sed 's|^|./|')
go build ./... 
go vet $PK >/dev/null 2>&1 || echo "(vet warnings)"
if ! go test -count=1 $PK > /tmp/applyfix.log 2>&1; then cat /tmp/applyfix.log | tail -30; echo "TESTS FAILED - reverting"; git checkout -- .; exit 1; fi
tail -5 /tmp/applyfix.log
test -f "$M" || { echo "no message file $M"; git checkout -- .; exit 1; }
head -1 "$M" | grep -q '^fix: ' || { echo "message must start with fix:"; git checkout -- .; exit 1; }
git commit -q -a -F "$M"
git log --oneline | head -1
