"""Shared machinery for the /verif checks.

One check = one property.  A check
  1. model-checks its TLA+ specification with TLC (exhaustive, small constants),
  2. lets TLC generate scenarios (simulation / enumeration on the same spec),
  3. runs a Go driver (overlaid into /repo packages, built from the current working tree with
     -tags verif) that executes the scenarios on the real code and records ndjson traces,
  4. lets TLC validate the recorded traces against the trace specification (which reuses the
     spec's actions and evaluates every invariant after every step),
  5. writes evidence/<id>.json and prints VIOLATION / KNOWN-FINDING lines.

Exit codes: 0 = held on everything explored, 1 = VIOLATION (reproduced on the real code),
2 = the run itself is broken (build failure, TLC crash, timeout, non-reproducible rejection).
"""
import json
import os
import re
import shutil
import subprocess
import sys
import time

VERIF = os.path.dirname(os.path.dirname(os.path.abspath(__file__)))
REPO = os.environ.get("VERIF_REPO", "/repo")
OUT = os.environ.get("VERIF_OUT", os.path.join(VERIF, "out"))
SPEC = os.path.join(VERIF, "spec")
OVERLAY = os.path.join(VERIF, "overlay")
TLA_JAR = "/opt/veriftools/tla/tla2tools.jar"
TLA_CM = "/opt/veriftools/tla/CommunityModules-deps.jar"
NCPU = os.cpu_count() or 4
if "VERIF_EVIDENCE" in os.environ:
    EVIDENCE = os.environ["VERIF_EVIDENCE"]
elif os.path.realpath(REPO) != "/repo":
    EVIDENCE = os.path.join(OUT, "evidence")    # scratch runs never touch the committed evidence
else:
    EVIDENCE = os.path.join(VERIF, "evidence")


class Broken(Exception):
    """The run is broken (exit 2); never a verdict about the property."""


def log(*a):
    print("[verif]", *a, flush=True)


def seed():
    try:
        return int(os.environ.get("VERIF_SEED", "1"))
    except ValueError:
        return 1


def outdir(pid, *sub):
    d = os.path.join(OUT, pid, *sub)
    os.makedirs(d, exist_ok=True)
    return d


def fresh_outdir(pid, *sub):
    d = os.path.join(OUT, pid, *sub)
    shutil.rmtree(d, ignore_errors=True)
    os.makedirs(d, exist_ok=True)
    return d


# --------------------------------------------------------------------------------------
# Go side
# --------------------------------------------------------------------------------------

def go_env(extra=None):
    env = dict(os.environ)
    env.update({
        "GOFLAGS": "-mod=mod",
        "GOPROXY": "off",
        "GOSUMDB": "off",
        "GOTOOLCHAIN": "local",
    })
    if extra:
        env.update({k: str(v) for k, v in extra.items()})
    return env


def overlay_file(pid):
    """Map every file under /verif/overlay/<rel> to $REPO/<rel> (files that do not exist in the
    repository: drivers, fakes, projections).  Nothing in /repo is written."""
    repl = {}
    for root, _dirs, files in os.walk(OVERLAY):
        for f in files:
            if f.endswith("~") or f.startswith("."):
                continue
            src = os.path.join(root, f)
            rel = os.path.relpath(src, OVERLAY)
            dst = os.path.join(REPO, rel)
            if os.path.exists(dst):
                raise Broken("overlay file would replace an existing repository file: %s" % rel)
            repl[dst] = src
    # written under a private name and moved into place: concurrent drivers of one property never read a
    # half-written file
    p = os.path.join(outdir(pid), "overlay.json")
    tmp = "%s.%d.%d" % (p, os.getpid(), time.time_ns() % 1000000007)
    with open(tmp, "w") as fh:
        json.dump({"Replace": repl}, fh, indent=1)
    os.replace(tmp, p)
    return p


def go_test(pid, pkg, run, env=None, timeout=900, race=False, extra_args=None, tags="verif"):
    """Run one overlaid driver (a Go test function) from /repo's current working tree."""
    ov = overlay_file(pid)
    # go.mod / go.sum of the tree are never touched: -mod=mod may rewrite the module file, so it is
    # given a private copy
    md = outdir(pid, "gomod", "%d-%d" % (os.getpid(), time.time_ns() % 1000000007))   # private per invocation
    shutil.copy(os.path.join(REPO, "go.mod"), os.path.join(md, "go.mod"))
    shutil.copy(os.path.join(REPO, "go.sum"), os.path.join(md, "go.sum"))
    cmd = ["go", "test", "-vet=off", "-count=1", "-tags", tags, "-overlay", ov,
           "-modfile", os.path.join(md, "go.mod"),
           "-run", run, "-timeout", "%ds" % timeout]
    if race:
        cmd.append("-race")
    if extra_args:
        cmd += extra_args
    cmd.append(pkg)
    t0 = time.time()
    try:
        p = subprocess.run(cmd, cwd=REPO, env=go_env(env), stdout=subprocess.PIPE,
                           stderr=subprocess.STDOUT, timeout=timeout + 120, text=True)
    except subprocess.TimeoutExpired as e:
        raise Broken("go test timed out: %s %s" % (pkg, run)) from e
    dt = time.time() - t0
    out = p.stdout
    with open(os.path.join(outdir(pid), "go-%s.log" % re.sub(r"[^A-Za-z0-9_]", "_", run)), "w") as fh:
        fh.write(out)
    if "[build failed]" in out or "[setup failed]" in out or re.search(r"^# ", out, re.M) and p.returncode != 0 and "--- FAIL" not in out and "panic:" not in out:
        raise Broken("driver does not build against the current tree:\n" + out[-4000:])
    return p.returncode, out, dt


# --------------------------------------------------------------------------------------
# TLC
# --------------------------------------------------------------------------------------

def _tlc_workdir(pid, name):
    d = fresh_outdir(pid, "tlc-" + name)
    for f in os.listdir(SPEC):
        if f.endswith(".tla") or f.endswith(".cfg"):
            try:
                shutil.copy(os.path.join(SPEC, f), d)
            except FileNotFoundError:
                pass    # a file removed by someone else between listing and copying: not ours
    return d


_STATS = re.compile(r"(\d+) states generated, (\d+) distinct states found, (\d+) states left on queue")


def tlc(pid, name, module, cfg=None, workers=None, timeout=600, env=None, simulate=None,
        depth=None, heap="4g", coverage=False, dfs=False, extra=None, aseed=None):
    """Run TLC on spec/<module>.tla with spec/<cfg>.  Returns a dict with the parsed result."""
    d = _tlc_workdir(pid, name)
    cfg = cfg or (module + ".cfg")
    os.makedirs(os.path.join(d, "jtmp"), exist_ok=True)
    # TLC unpacks its standard modules into java.io.tmpdir on every start: keep that inside the run's
    # scratch directory instead of littering /tmp
    jopts = ["-XX:+UseParallelGC", "-Xmx" + heap, "-Xss256m", "-Djava.io.tmpdir=" + os.path.join(d, "jtmp")]
    if dfs:
        jopts.append("-Dtlc2.tool.queue.IStateQueue=StateDeque")
    cmd = ["java"] + jopts + ["-cp", TLA_JAR + ":" + TLA_CM, "tlc2.TLC",
                              "-metadir", os.path.join(d, "meta"), "-config", cfg,
                              "-workers", str(workers or 1)]
    if simulate:
        cmd += ["-simulate", simulate]
    if depth:
        cmd += ["-depth", str(depth)]
    if aseed is not None:
        cmd += ["-seed", str(aseed)]
    if coverage:
        cmd += ["-coverage", "1"]
    if extra:
        cmd += extra
    cmd.append(module + ".tla")
    e = dict(os.environ)
    e.pop("JAVA_TOOL_OPTIONS", None)
    if env:
        e.update({k: str(v) for k, v in env.items()})
    t0 = time.time()
    try:
        p = subprocess.run(cmd, cwd=d, env=e, stdout=subprocess.PIPE, stderr=subprocess.STDOUT,
                           timeout=timeout, text=True)
        out = p.stdout
        rc = p.returncode
        timed_out = False
    except subprocess.TimeoutExpired as ex:
        out = (ex.stdout or b"")
        if isinstance(out, bytes):
            out = out.decode("utf-8", "replace")
        rc = -9
        timed_out = True
        subprocess.run(["pkill", "-f", "metadir %s" % os.path.join(d, "meta")], check=False)
    dt = time.time() - t0
    with open(os.path.join(d, "tlc.out"), "w") as fh:
        fh.write(out)
    res = {"dir": d, "rc": rc, "out": out, "wall_s": dt, "timed_out": timed_out,
           "generated": 0, "distinct": 0, "ok": False, "violated": None, "kind": None}
    m = None
    for m in _STATS.finditer(out):
        pass
    if m:
        res["generated"] = int(m.group(1))
        res["distinct"] = int(m.group(2))
    if "Model checking completed. No error has been found." in out:
        res["ok"] = True
    mi = re.search(r"Error: Invariant (\S+) is violated", out)
    ma = re.search(r"Error: Action property (\S+) is violated", out)
    mp = re.search(r"Error: Postcondition (\S+) .* is false", out)
    mt = re.search(r"Error: Temporal propert(?:ies were|y (\S+) was) violated", out)
    if mi:
        res["kind"], res["violated"] = "invariant", mi.group(1)
    elif ma:
        res["kind"], res["violated"] = "action_property", ma.group(1)
    elif mt:
        res["kind"], res["violated"] = "temporal", (mt.group(1) or "temporal")
    elif mp:
        res["kind"], res["violated"] = "postcondition", mp.group(1)
    elif "Error: Deadlock reached" in out:
        res["kind"], res["violated"] = "deadlock", "deadlock"
    elif not res["ok"] and not simulate:
        res["kind"] = "error"
    return res


def tlc_exhaustive(pid, module, cfg, workers=None, timeout=900, heap="6g", coverage=False, name=None):
    """Exhaustive model checking of the design; anything but a clean pass is a broken run
    (a design-level counterexample is never by itself a verdict about the code)."""
    r = tlc(pid, name or ("mc-" + cfg.replace(".cfg", "")), module, cfg, workers=workers or min(NCPU, 8),
            timeout=timeout, heap=heap, coverage=coverage)
    if r["timed_out"]:
        raise Broken("TLC exhaustive run timed out (%s)" % cfg)
    if not r["ok"]:
        raise Broken("TLC exhaustive run of %s/%s did not pass (%s %s); see %s/tlc.out\n%s" % (
            module, cfg, r["kind"], r["violated"], r["dir"], r["out"][-3000:]))
    log("TLC %s/%s: %d states generated, %d distinct, %.1fs" % (module, cfg, r["generated"], r["distinct"], r["wall_s"]))
    return r


def tlc_emitted(out):
    """JSON values printed by the spec with PrintT(ToJson(x)) (one quoted JSON string per line)."""
    vals = []
    for line in out.splitlines():
        line = line.strip()
        if len(line) > 2 and line[0] == '"' and line[-1] == '"' and (line[1] in "[{"):
            try:
                vals.append(json.loads(json.loads(line)))
            except Exception:
                pass
    return vals


def tlc_scenarios(pid, module, cfg, num=None, depth=None, aseed=None, timeout=600, workers=1,
                  env=None, exhaustive=False, name=None, heap="4g"):
    """Behaviours of the specification written out by the spec itself (history variable printed
    with PrintT(ToJson(hist))).  Simulation mode unless exhaustive=True."""
    if exhaustive:
        r = tlc(pid, name or "scen", module, cfg, workers=workers, timeout=timeout, env=env, heap=heap)
    else:
        r = tlc(pid, name or "scen", module, cfg, workers=workers, timeout=timeout, env=env, heap=heap,
                simulate="num=%d" % num, depth=depth, aseed=aseed if aseed is not None else seed())
    if r["timed_out"] and exhaustive:
        raise Broken("scenario generation timed out")
    if r["kind"] in ("invariant", "action_property", "error", "deadlock") :
        raise Broken("scenario generation failed (%s %s):\n%s" % (r["kind"], r["violated"], r["out"][-3000:]))
    sc = tlc_emitted(r["out"])
    # de-duplicate, keep order
    seen, uniq = set(), []
    for s in sc:
        k = json.dumps(s, sort_keys=True)
        if k not in seen:
            seen.add(k)
            uniq.append(s)
    log("TLC generated %d behaviours (%d distinct) from %s/%s" % (len(sc), len(uniq), module, cfg))
    return uniq


def write_ndjson(path, rows):
    with open(path, "w") as fh:
        for r in rows:
            fh.write(json.dumps(r, sort_keys=True, separators=(",", ":")) + "\n")


def read_ndjson(path):
    rows = []
    with open(path) as fh:
        for line in fh:
            line = line.strip()
            if line:
                rows.append(json.loads(line))
    return rows


def validate_trace(pid, module, cfg, trace_path, timeout=600, name="trace", dfs=False, heap="4g", env=None):
    """TLC validates a recorded ndjson trace (possibly many scenarios concatenated, separated by
    reset events) against the trace specification.  Result:
      accepted  - every line was explained and every invariant held after every step
      line      - 1-based index of the first line that is not explained / after which an invariant fails
      why       - text
    """
    n = sum(1 for _ in open(trace_path))
    if n == 0:
        raise Broken("empty trace " + trace_path)
    e = {"VERIF_TRACE": os.path.abspath(trace_path)}
    if env:
        e.update(env)
    r = tlc(pid, name, module, cfg, workers=1, timeout=timeout, env=e, dfs=dfs, heap=heap)
    res = {"accepted": False, "line": None, "why": None, "tlc": r, "lines": n}
    if r["timed_out"]:
        raise Broken("trace validation timed out")
    if r["ok"]:
        res["accepted"] = True
        return res
    out = r["out"]
    if r["kind"] == "postcondition":
        m = re.search(r'TRACE_REJECTED_AT",\s*(\d+)', out)
        if not m:
            raise Broken("trace rejected without position:\n" + out[-3000:])
        res["line"] = int(m.group(1))
        res["why"] = "no action of the specification explains trace line %d" % res["line"]
        return res
    if r["kind"] in ("invariant", "action_property"):
        # the last state of the counterexample carries l = index of the next line to consume
        ls = re.findall(r"^/?\\?\s*l = (\d+)", out, re.M)
        if not ls:
            ls = re.findall(r"\bl = (\d+)", out)
        if not ls:
            raise Broken("invariant violated without trace position:\n" + out[-3000:])
        res["line"] = int(ls[-1]) - 1
        res["why"] = "%s %s is false after trace line %d" % (r["kind"], r["violated"], res["line"])
        res["invariant"] = r["violated"]
        return res
    raise Broken("trace validation did not complete (%s):\n%s" % (r["kind"], out[-4000:]))


def scenario_of_line(rows, line, key="sc"):
    """Scenario id of 1-based trace line."""
    if line is None or line < 1:
        return None
    line = min(line, len(rows))
    return rows[line - 1].get(key)


# --------------------------------------------------------------------------------------
# known findings, verdicts, evidence
# --------------------------------------------------------------------------------------

def known_findings(pid):
    """findings.d/<pid>.json is the committed source; known_findings.json is the merged copy."""
    p = os.path.join(VERIF, "findings.d", pid + ".json")
    if not os.path.exists(p):
        return []
    with open(p) as fh:
        doc = json.load(fh)
    return [f for f in doc.get("findings", []) if f.get("property") == pid]


def match_finding(pid, sig):
    """sig: dict describing the failing input / call site / history.  An *open* finding matches
    when every key of its 'match' has the same value in sig.  Fixed entries suppress nothing."""
    for f in known_findings(pid):
        if str(f.get("status", "")).startswith("fixed"):
            continue
        m = f.get("match", {})
        if m and all(sig.get(k) == v for k, v in m.items()):
            return f
    return None


class Verdict:
    def __init__(self, pid, tier):
        self.pid = pid
        self.tier = tier
        self.t0 = time.time()
        self.violations = []
        self.unreproduced = []
        self.known = {}
        self.coverage = {"evaluations": 0, "distinct_nontrivial": 0, "states": 0, "transitions": 0,
                         "traces_validated_against_impl": 0, "samples": []}
        self.assumptions = []

    def add_mc(self, r):
        self.coverage["states"] += r["distinct"]
        self.coverage["transitions"] += r["generated"]

    def report(self, sig, what, replay_dir):
        """A reproduced disagreement between the real code and the specification."""
        f = match_finding(self.pid, sig)
        if f is not None:
            if f["id"] not in self.known:
                self.known[f["id"]] = f
                print("KNOWN-FINDING: property=%s %s" % (self.pid, f.get("what", f["id"])), flush=True)
            return False
        self.violations.append({"sig": sig, "what": what, "replay": replay_dir})
        print("VIOLATION property=%s replay=%s" % (self.pid, replay_dir), flush=True)
        log("  " + what)
        return True

    def finish(self, level="model_checking", extra=None):
        # one scenario whose re-runs disagree with its first run is ONE piece of noise, however many trace
        # configurations it was validated under
        self.unreproduced = sorted({u.split(":")[0]: u for u in self.unreproduced}.values())
        cov = dict(self.coverage)
        if extra:
            cov.update(extra)
        cov["samples"] = cov["samples"][:6] or ["(none)"]
        ev = {
            "property_id": self.pid,
            "tier": self.tier,
            "seed": seed(),
            "level": level,
            "coverage": cov,
            "assumptions": self.assumptions,
            "wall_s": round(time.time() - self.t0, 2),
            "violations": len(self.violations),
            "unreproduced_rejections": len(self.unreproduced),
            "known_findings_reobserved": sorted(self.known.keys()),
        }
        os.makedirs(EVIDENCE, exist_ok=True)
        with open(os.path.join(EVIDENCE, self.pid + ".json"), "w") as fh:
            json.dump(ev, fh, indent=1, sort_keys=True)
            fh.write("\n")
        log("%s %s: %d violation(s), %d known finding(s), %d unreproduced rejection(s), %.1fs" % (
            self.pid, self.tier, len(self.violations), len(self.known), len(self.unreproduced), ev["wall_s"]))
        if self.violations:
            return 1
        # A rejection that did not reproduce in three isolated re-runs is noise of the harness (real time
        # under load), never a verdict.  A few are tolerated and recorded in the evidence; many mean the
        # harness is too disturbed to say anything (exit 2).
        budget = max(3, self.coverage.get("evaluations", 0) // 500)
        if len(self.unreproduced) > budget:
            print("[verif] BROKEN RUN (no verdict): %d rejections did not reproduce (budget %d): %s" % (
                len(self.unreproduced), budget, self.unreproduced[:6]), flush=True)
            return 2
        if self.unreproduced:
            log("note: %d rejection(s) did not reproduce when re-run alone three times (noise; recorded in evidence): %s" % (
                len(self.unreproduced), self.unreproduced))
        return 0


def save_replay(pid, n, scenario, trace_rows, note):
    d = fresh_outdir(pid, "violations", str(n))
    with open(os.path.join(d, "scenario.json"), "w") as fh:
        json.dump(scenario, fh, indent=1, sort_keys=True)
    write_ndjson(os.path.join(d, "trace.ndjson"), trace_rows)
    with open(os.path.join(d, "note.txt"), "w") as fh:
        fh.write(note + "\n")
    return d


# --------------------------------------------------------------------------------------
# the conformance loop shared by most checks
# --------------------------------------------------------------------------------------

def run_driver(pid, pkg, test, scenarios, tag="batch", env=None, timeout=900, race=False):
    """scenarios: list of dicts with 'sc' (id).  Returns the recorded trace rows."""
    d = outdir(pid)
    sp = os.path.join(d, "scenarios-%s.ndjson" % tag)
    tp = os.path.join(d, "trace-%s.ndjson" % tag)
    write_ndjson(sp, scenarios)
    if os.path.exists(tp):
        os.remove(tp)
    e = {"VERIF_SCENARIOS": sp, "VERIF_TRACE_OUT": tp, "VERIF_SEED": seed(),
         "VERIF_TIER": os.environ.get("VERIF_TIER", "quick")}
    if env:
        e.update(env)
    rc, out, dt = go_test(pid, pkg, "^%s$" % test, env=e, timeout=timeout, race=race)
    if rc != 0 or not os.path.exists(tp):
        raise Broken("driver %s %s failed (rc=%d):\n%s" % (pkg, test, rc, out[-6000:]))
    rows = read_ndjson(tp)
    log("driver %s: %d scenarios -> %d trace lines (%.1fs)" % (test, len(scenarios), len(rows), dt))
    return rows


def conformance(v, scenarios, driver, trace_module, trace_cfg, sig_of, nontrivial=None,
                max_failures=5, dfs=False, tlc_timeout=900, chunk=None, heap="4g"):
    """Replay `scenarios` on the real code with `driver(scenarios, tag) -> trace rows`, validate the
    traces with TLC, and turn every *reproduced* rejection into a report (VIOLATION or KNOWN-FINDING).
      sig_of(scenario) -> dict   signature used to match known findings and to describe a violation
      nontrivial(scenario, rows) -> bool   counts towards distinct_nontrivial
    """
    pid = v.pid
    by_id = {s["sc"]: s for s in scenarios}
    if len(by_id) != len(scenarios):
        raise Broken("scenario ids are not unique")
    # scenarios that match an open known finding are validated apart, so that the finding is
    # re-observed (KNOWN-FINDING line) without hiding anything else
    known_ids = set()
    for s in scenarios:
        if match_finding(pid, sig_of(s)) is not None:
            known_ids.add(s["sc"])
    rows = driver(scenarios, "batch")
    per = {}
    for r in rows:
        per.setdefault(r.get("sc"), []).append(r)
    missing = [i for i in by_id if i not in per]
    if missing:
        raise Broken("driver produced no trace for scenarios %s" % missing[:5])
    v.coverage["evaluations"] += len(scenarios)
    if nontrivial is not None:
        seen = set()
        for s in scenarios:
            if nontrivial(s, per[s["sc"]]):
                k = dict(s)
                k.pop("sc", None)
                seen.add(json.dumps(k, sort_keys=True))
        v.coverage["distinct_nontrivial"] += len(seen)
    for s in scenarios[:2]:
        v.coverage["samples"].append({"scenario": s, "trace": per[s["sc"]][:12]})

    failures = 0
    order = [s["sc"] for s in scenarios]

    def validate(ids, tag):
        tp = os.path.join(outdir(pid), "validate-%s.ndjson" % tag)
        sel = [r for i in ids for r in per[i]]
        write_ndjson(tp, sel)
        res = validate_trace(pid, trace_module, trace_cfg, tp, name="trace-" + tag, dfs=dfs,
                             timeout=tlc_timeout, heap=heap)
        return res, sel

    def confirm(sid):
        """Re-run one scenario alone; True iff the rejection reproduces on the real code."""
        for attempt in range(3):
            rr = driver([by_id[sid]], "confirm%d" % (attempt + 1))
            tp = os.path.join(outdir(pid), "confirm.ndjson")
            write_ndjson(tp, rr)
            res = validate_trace(pid, trace_module, trace_cfg, tp, name="trace-confirm", dfs=dfs,
                                 timeout=tlc_timeout, heap=heap)
            if not res["accepted"]:
                return True, rr, res
        return False, None, None

    def drain(ids, tag, expect_known):
        nonlocal failures
        ids = list(ids)
        accepted = 0
        while ids:
            res, sel = validate(ids, tag)
            if res["accepted"]:
                accepted += len(ids)
                break
            sid = scenario_of_line(sel, res["line"])
            if sid is None or sid not in by_id:
                raise Broken("cannot attribute rejection at line %s" % res["line"])
            ok, rr, res2 = confirm(sid)
            pos = ids.index(sid)
            accepted += pos
            if not ok:
                # never a verdict: remembered, the run ends with exit 2 unless a reproduced violation exists
                v.unreproduced.append("scenario %s: %s" % (sid, res["why"]))
                log("rejection of scenario %s did not reproduce (%s)" % (sid, res["why"]))
                ids = ids[pos + 1:]
                if len(v.unreproduced) >= 6:
                    break
                continue
            failures += 1
            sig = sig_of(by_id[sid])
            local = res2["line"]
            nxt = rr[local - 1] if local and local <= len(rr) else None
            note = "%s\nnext/offending trace line: %s" % (res2["why"], json.dumps(nxt))
            d = save_replay(pid, failures, by_id[sid], rr, note)
            v.report(sig, "%s; scenario %s; line %s" % (res2["why"], sid, json.dumps(nxt)[:300]), d)
            ids = ids[pos + 1:]
            # the lines before `pos` were accepted as a prefix; everything after is re-validated
            if failures >= max_failures:
                log("stopping after %d rejected scenarios" % failures)
                break
        return accepted

    main_ids = [i for i in order if i not in known_ids]
    acc = 0
    if chunk:
        for k in range(0, len(main_ids), chunk):
            acc += drain(main_ids[k:k + chunk], "main%d" % (k // chunk), False)
    else:
        acc += drain(main_ids, "main", False)
    if known_ids:
        acc += drain([i for i in order if i in known_ids], "known", True)
    v.coverage["traces_validated_against_impl"] += acc
    return acc
