#!/bin/sh
# lib/seedconfirm.sh <ID> <name> <demo package dir> : coordinator tool.
# Confirms a seeded change delivered in /tmp/seed-<ID>-out against the scratch worktree /tmp/seed-<ID>
# (existing tests of touched packages pass with the change; demo fails with it, passes without),
# stores it under /verif/seeded/<name>/ and removes the worktree.
ID=$1; NAME=$2; PKG=$3
export GOFLAGS=-mod=mod GOPROXY=off GOSUMDB=off GOTOOLCHAIN=local
W=/tmp/seed-$ID; O=/tmp/seed-$ID-out; D=/verif/seeded/$NAME
mkdir -p $D && cp $O/patch.diff $O/demo_test.go $O/README.md $D/
cd $W || exit 2
git checkout -q -- . ; git clean -fdq
git apply $D/patch.diff || { echo "patch does not apply"; exit 2; }
go build ./... || { echo BUILD-FAILS; exit 2; }
PK=$(git diff --name-only | xargs -n1 dirname | sort -u | sed 's|^|./|')
go test -count=1 $PK > $D/.existing.log 2>&1; E=$?
cp $D/demo_test.go $W/$PKG/zz_seed_demo_test.go
go test -count=1 ./$PKG > $D/.demo_with.log 2>&1; A=$?
git apply -R $D/patch.diff
go test -count=1 ./$PKG > $D/.demo_without.log 2>&1; B=$?
echo "existing-tests-with-change rc=$E ; demo-with-change rc=$A (want !=0) ; demo-without rc=$B (want 0)"
grep -E "^(--- FAIL|FAIL|ok)" $D/.demo_with.log | head -5
rm -f $D/.existing.log $D/.demo_with.log $D/.demo_without.log
cd / && git -C /repo worktree remove --force $W; rm -rf $O
