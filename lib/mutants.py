#!/usr/bin/env python3
"""lib/mutants.py <ID> [name...] — binding demonstration.

Applies every mutants/<ID>/*.diff (a small source change that breaks the property while still
compiling) to a scratch worktree of /repo (outside /repo and /verif, removed afterwards), runs the
property's quick check against it (VERIF_REPO) and expects exit 1 with a VIOLATION line.  Also
runs the check on the unmodified scratch worktree and expects exit 0."""
import glob
import os
import shutil
import subprocess
import sys

VERIF = os.path.dirname(os.path.dirname(os.path.abspath(__file__)))


def sh(cmd, **kw):
    return subprocess.run(cmd, shell=True, text=True, stdout=subprocess.PIPE, stderr=subprocess.STDOUT, **kw)


def main():
    pid = sys.argv[1]
    args = sys.argv[2:]
    patches = []
    while "--patch" in args:          # lib/mutants.py <ID> --patch <file> [--patch <file>...]: run these instead
        i = args.index("--patch")
        patches.append(os.path.abspath(args[i + 1]))
        del args[i:i + 2]
    only = set(args)
    wt = "/tmp/verif-mut-%s-%d" % (pid, os.getpid())
    out = wt + "-out"
    sh("git -C /repo worktree remove --force %s" % wt)
    r = sh("git -C /repo worktree add -q --detach %s HEAD" % wt)
    if r.returncode != 0:
        print(r.stdout)
        return 2
    # carry over uncommitted changes of /repo's working tree as well
    d = sh("git -C /repo diff HEAD")
    if d.stdout.strip():
        subprocess.run("git apply", shell=True, input=d.stdout, text=True, cwd=wt)
    env = dict(os.environ, VERIF_REPO=wt, VERIF_OUT=out)
    bad = 0
    try:
        diffs = patches or sorted(glob.glob(os.path.join(VERIF, "mutants", pid, "*.diff")))
        for df in diffs:
            name = os.path.basename(df)[:-5] if not patches else os.path.basename(os.path.dirname(df)) + "/" + os.path.basename(df)
            if only and name not in only:
                continue
            a = sh("git apply --whitespace=nowarn %s || patch -p1 -s < %s" % (df, df), cwd=wt)
            if a.returncode != 0:
                print("MUTANT %-40s DOES-NOT-APPLY\n%s" % (name, a.stdout))
                bad += 1
                sh("git checkout -q -- . && git clean -fdq", cwd=wt)
                continue
            r = subprocess.run([os.path.join(VERIF, "check"), pid], env=env, text=True,
                               stdout=subprocess.PIPE, stderr=subprocess.STDOUT, cwd=VERIF)
            caught = r.returncode == 1 and "VIOLATION property=%s" % pid in r.stdout
            print("MUTANT %-40s %s (rc=%d)" % (name, "caught" if caught else "MISSED", r.returncode), flush=True)
            if not caught:
                bad += 1
                print(r.stdout[-1500:])
            sh("git checkout -q -- . && git clean -fdq", cwd=wt)
        if not only and not patches:
            r = subprocess.run([os.path.join(VERIF, "check"), pid], env=env, text=True,
                               stdout=subprocess.PIPE, stderr=subprocess.STDOUT, cwd=VERIF)
            okc = r.returncode == 0 and "VIOLATION" not in r.stdout
            print("UNMUTATED %-37s %s (rc=%d)" % ("", "passes" if okc else "FAILS", r.returncode), flush=True)
            if not okc:
                bad += 1
                print(r.stdout[-1500:])
    finally:
        sh("git -C /repo worktree remove --force %s" % wt)
        shutil.rmtree(out, ignore_errors=True)
        shutil.rmtree(wt, ignore_errors=True)
    return 1 if bad else 0


if __name__ == "__main__":
    sys.exit(main())
