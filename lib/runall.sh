#!/bin/sh
# lib/runall.sh [tier] [ids...] : run checks one after the other, one summary line each
TIER=${1:-quick}; shift
IDS="$@"; [ -z "$IDS" ] && IDS=$(ls /verif/manifest.d | grep -v _base | sed 's/.json//')
cd /verif
for id in $IDS; do
  s=$(date +%s); out=$(./check $id --tier $TIER 2>&1); rc=$?; e=$(date +%s)
  echo "$id rc=$rc $((e-s))s $(echo "$out" | grep -c '^VIOLATION') violations $(echo "$out" | grep -c '^KNOWN-FINDING') known | $(echo "$out" | grep -E 'BROKEN' | head -1 | cut -c1-200)"
done
