#!/usr/bin/env python3
"""Assemble MANIFEST.json from manifest.d/*.json and known_findings.json from findings.d/*.json."""
import glob
import json
import os

VERIF = os.path.dirname(os.path.dirname(os.path.abspath(__file__)))


def main():
    props = [json.loads(l) for l in open(os.path.join(VERIF, "properties.jsonl")) if l.strip()]
    ids = [p["id"] for p in props]
    base = json.load(open(os.path.join(VERIF, "manifest.d", "_base.json")))
    checks = []
    for pid in ids:
        p = os.path.join(VERIF, "manifest.d", pid + ".json")
        if not os.path.exists(p):
            continue
        c = json.load(open(p))
        c.setdefault("property_id", pid)
        c.setdefault("quick_cmd", "./check %s --tier quick" % pid)
        c.setdefault("thorough_cmd", "./check %s --tier thorough" % pid)
        c.setdefault("evidence_file", "/verif/evidence/%s.json" % pid)
        c.setdefault("replay_cmd_template", "./check %s --replay {path}" % pid)
        c.setdefault("engine", "tla-conformance")
        checks.append(c)
    claimed = {c["property_id"] for c in checks}
    na_reasons = base.pop("not_applicable_reasons", {})
    na = [{"property_id": pid, "reason": na_reasons.get(pid, "check not built yet in this session; planned in DESIGN.md §4")}
          for pid in ids if pid not in claimed]
    m = dict(base)
    m["checks"] = checks
    m["not_applicable"] = na
    with open(os.path.join(VERIF, "MANIFEST.json"), "w") as fh:
        json.dump(m, fh, indent=1)
        fh.write("\n")
    findings = []
    for p in sorted(glob.glob(os.path.join(VERIF, "findings.d", "*.json"))):
        findings += json.load(open(p)).get("findings", [])
    lines = []
    for f in findings:
        st = str(f.get("status", "open"))
        if st.startswith("fixed"):
            lines.append("fixed: property=%s %s %s" % (f["property"], st.split(":", 1)[1].strip(), f.get("what", "")))
        else:
            lines.append("open: property=%s %s" % (f["property"], f.get("what", "")))
    with open(os.path.join(VERIF, "known_findings.json"), "w") as fh:
        json.dump({"note": "merged from findings.d/*.json by lib/mkmanifest.py; checks read findings.d/<id>.json; "
                           "never written at check run time", "summary": lines, "findings": findings}, fh, indent=1)
        fh.write("\n")
    print("MANIFEST.json: %d checks, %d not claimed; known_findings.json: %d entries" % (len(checks), len(na), len(findings)))


if __name__ == "__main__":
    main()
