#!/bin/sh
# Offline set-up after a fresh restore: warm the Go build cache for /repo (with the verif tag and
# the overlaid drivers) and check that TLC starts.  Nothing is fetched.
set -e
cd "$(dirname "$0")/.."
export GOFLAGS=-mod=mod GOPROXY=off GOSUMDB=off GOTOOLCHAIN=local
python3 lib/mkmanifest.py >/dev/null
python3 - <<'PY'
import sys
sys.path.insert(0, "lib")
import vf
ov = vf.overlay_file("_setup")
import subprocess
r = subprocess.run(["go", "test", "-vet=off", "-tags", "verif", "-overlay", ov, "-count=1", "-run", "^$", "./..."],
                   cwd=vf.REPO, env=vf.go_env(), stdout=subprocess.PIPE, stderr=subprocess.STDOUT, text=True)
bad = [l for l in r.stdout.splitlines() if "FAIL" in l or l.startswith("#")]
print("\n".join(bad[:40]))
print("go warm-up rc=%d" % r.returncode)
PY
java -cp /opt/veriftools/tla/tla2tools.jar tlc2.TLC -h >/dev/null 2>&1 || true
echo "setup done"
