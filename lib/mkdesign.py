#!/usr/bin/env python3
"""Regenerate the generated blocks of DESIGN.md (§8.2 findings table, §8.3 seeded changes, §8.4 mutants)."""
import glob, json, os, re
V = os.path.dirname(os.path.dirname(os.path.abspath(__file__)))
kf = json.load(open(os.path.join(V, "known_findings.json")))["findings"]
rows = ["| property | finding | status | what failed on the pinned tree |", "|---|---|---|---|"]
for f in kf:
    rows.append("| %s | %s | %s | %s |" % (f["property"], f["id"], f.get("status", "open"), f.get("what", "").replace("|", "/")))
seed = ["| seeded change | property | needs | caught by |", "|---|---|---|---|"]
for m in sorted(glob.glob(os.path.join(V, "seeded", "*", "meta.json"))):
    d = json.load(open(m)); n = os.path.basename(os.path.dirname(m))
    seed.append("| %s | %s | %s | %s |" % (n, d["property"], d.get("needs", "").replace("|", "/"), d.get("detected_by", "").replace("|", "/")))
mut = ["| property | source mutants (mutants/<ID>/*.diff; `python3 lib/mutants.py <ID>`) |", "|---|---|"]
for d in sorted(glob.glob(os.path.join(V, "mutants", "*"))):
    names = sorted(os.path.basename(x)[:-5] for x in glob.glob(os.path.join(d, "*.diff")))
    mut.append("| %s | %s |" % (os.path.basename(d), ", ".join(names)))
ev = ["| property | tier of the committed evidence | TLC distinct states | TLC transitions | scenarios run on the real code | non-trivial distinct | traces accepted by TLC | wall s | spec modules / docs |", "|---|---|---|---|---|---|---|---|---|"]
import re as _re
for e in sorted(glob.glob(os.path.join(V, "evidence", "*.json"))):
    d = json.load(open(e)); c = d["coverage"]; pid = d["property_id"]
    chk = open(os.path.join(V, "checks", pid + ".py")).read() if os.path.exists(os.path.join(V, "checks", pid + ".py")) else ""
    mods = sorted(set(_re.findall(r'"(?:MC|Scen|Trace)_([A-Za-z]+?)(?:_[A-Za-z0-9_]+)?\.cfg"', chk)))
    ev.append("| %s | %s | %s | %s | %s | %s | %s | %s | %s; docs/%s.md |" % (pid, d["tier"], c.get("states", ""), c.get("transitions", ""), c.get("evaluations", ""), c.get("distinct_nontrivial", ""), c.get("traces_validated_against_impl", ""), d.get("wall_s", ""), ", ".join(m + ".tla" for m in mods[:6]), pid))
# --- specification modules as built
import glob as _glob
mods = []
allt = sorted(_glob.glob(os.path.join(V, "spec", "*.tla")))
chk = {os.path.basename(c)[:-3]: open(c).read() for c in _glob.glob(os.path.join(V, "checks", "*.py"))}
cfgs = [os.path.basename(c) for c in _glob.glob(os.path.join(V, "spec", "*.cfg"))]
for t in allt:
    name = os.path.basename(t)[:-4]
    if name.startswith(("MC_", "Scen_", "Trace_")) or name == "TraceLib":
        continue
    txt = open(t).read()
    nvars = 0
    mv = re.search(r"^vars\s*==\s*<<(.*?)>>", txt, re.S | re.M)
    if mv:
        nvars = len([x for x in mv.group(1).replace("\n", " ").split(",") if x.strip()])
    ndefs = len(re.findall(r"^[A-Za-z_][A-Za-z0-9_]*(\([^)]*\))?\s*==", txt, re.M))
    dep = [os.path.basename(x)[:-4] for x in allt if re.search(r"(EXTENDS|INSTANCE)[^\n]*\b%s\b" % re.escape(name), open(x).read())]
    ncfg = len([c for c in cfgs if any(re.match(r"(MC_|Scen_|Trace_)?%s(\b|_|\.)" % re.escape(d), c) for d in [name] + dep)])
    users = sorted(k for k, v in chk.items() if re.search(r"[\"'/]%s[\"'.]" % re.escape(name), v) or any(re.search(r"[\"'/]%s[\"'.]" % re.escape(d), v) for d in dep))
    first = ""
    mh = re.search(r"\(\*\s*(.*?)\*\)", txt, re.S)
    if mh:
        first = " ".join(mh.group(1).replace("*)", "").replace("(*", "").split())[:150]
    mods.append("| `%s.tla` | %d | %d | %d | %s | %s | %s |" % (name, len(txt.splitlines()), nvars, ndefs, len(dep), ncfg, ", ".join(users) or "-") + " " + first + " |")
modtab = ("| module | lines | state variables | definitions | extended / instantiated by (MC, Scen, Trace, control modules) | configurations | checks | header |\n|---|---|---|---|---|---|---|---|\n" + "\n".join(mods) +
          "\n\n%d modules in all under spec/ (%d of them MC_/Scen_/Trace_ harness modules), %d TLC configurations." % (len(allt), len([t for t in allt if os.path.basename(t).startswith(("MC_", "Scen_", "Trace_"))]), len(cfgs)))

block = ("<!-- BEGIN GENERATED -->\n### 8.1a Specification modules as built (from spec/)\n\n" + modtab + "\n\n" + "<!-- -->\n### 8.1b What each check covered in its last committed run (from evidence/)\n\n" + "\n".join(ev) + "\n\n### 8.2 Defects found on the pinned tree (from findings.d/)\n\n" + "\n".join(rows) +
         "\n\n### 8.3 Seeded changes by fresh sub-agents (seeded/*/)\n\n" + "\n".join(seed) +
         "\n\n### 8.4 Binding demonstration: source mutants per property\n\n" + "\n".join(mut) + "\n<!-- END GENERATED -->\n")
p = os.path.join(V, "DESIGN.md"); s = open(p).read()
if "<!-- BEGIN GENERATED -->" in s:
    s = re.sub(r"<!-- BEGIN GENERATED -->.*<!-- END GENERATED -->\n", lambda m: block, s, flags=re.S)
else:
    s += "\n" + block
open(p, "w").write(s)
print("DESIGN.md generated blocks: %d findings, %d seeded, %d mutant sets" % (len(kf), len(seed) - 2, len(mut) - 2))
