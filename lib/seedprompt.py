#!/usr/bin/env python3
"""Print the prompt for a fresh seeded-change sub-agent for property <ID> (only the property text)."""
import json, sys
pid = sys.argv[1]
tag = sys.argv[2] if len(sys.argv) > 2 else pid
avoid = sys.argv[3] if len(sys.argv) > 3 else ""
STYLE = sys.argv[4] if len(sys.argv) > 4 else ""
p = [json.loads(l) for l in open('/verif/properties.jsonl') if json.loads(l)['id'] == pid][0]
files = ", ".join(p['anchors']['files'])
hooknote = ""
if pid == "C02":
    hooknote = " Note: the scheduler file contains calls to `verifPoint(job, \"...\")`, a no-op instrumentation hook; leave those calls in place (you may move them along with the code they follow)."
print(f"""You are helping to evaluate a verification tool by producing a realistic *breaking change* to a Go code base. Work ONLY inside the git worktree /tmp/seed-{tag} (a checkout of attestantio/vouch, an Ethereum validator client). Do NOT read or touch /verif or /repo (other than through this worktree); do not commit, stash or create branches (the worktree shares its .git with others).

Property that your change must break (it holds on the current tree):

"{p['title']}. {p['statement']}" — quantified over: {p['quantifier']['text']}. Anchored in: {files}.{hooknote}

{("A different change has already been produced for this property: " + avoid + " Produce a change of a DIFFERENT kind (another clause of the property, another code path, and preferably one that needs a particular interleaving, fault or multi-step history rather than a single unusual input).") if avoid else ""}

{STYLE}

Task: make a small, realistic source change (the kind of slip a maintainer could make in a refactor, optimisation or feature tweak) in the worktree that violates this property while the repository still compiles and ALL existing tests still pass (run at least the tests of the packages you touch and their dependants, ideally `go test ./...`; some of the repository's tests are timing based and noisy under load — repeat before concluding). The violation must need something specific to manifest — a particular interleaving, a crash or fault at a particular point, a multi-step sequence of operations, an unusual or boundary input, or two cooperating sites that each look fine alone — NOT something ordinary use would expose at once. Then write a demonstration: a Go test that FAILS with your change and PASSES on the unchanged code (verify both by temporarily reverting your source change with `git diff > /tmp/seed-{tag}-out/patch.diff; git apply -R ...` or by copying files — no git stash).

Environment: no network. Use `export GOFLAGS=-mod=mod GOPROXY=off GOSUMDB=off GOTOOLCHAIN=local` before go commands; if `go` wants to modify go.mod, you imported something that is not a direct dependency — don't. The machine is heavily loaded; builds are slow, be patient.

Deliver, in /tmp/seed-{tag}-out/: `patch.diff` (`git -C /tmp/seed-{tag} diff` of the source change only, without the demo test), `demo_test.go` (the demonstration, with a comment saying in which package directory it belongs), `README.md` (what the change is, why it breaks the property, exactly what is needed for it to manifest, and the commands you ran with their results: existing tests pass with the change; demo fails with the change; demo passes without it). Leave the worktree with your change applied (without the demo file). Final answer: a short summary of the same.""")
