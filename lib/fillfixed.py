#!/usr/bin/env python3
"""Coordinator tool: fill commit ids into findings.d entries whose status is 'fixed: <pending>',
matching the entry's 'patch' (fixes/X.patch -> fixes/X.msg first line) with /repo commit subjects."""
import glob, json, os, re, subprocess
VERIF = os.path.dirname(os.path.dirname(os.path.abspath(__file__)))
log = subprocess.run(["git", "-C", "/repo", "log", "--format=%h %s"], text=True, stdout=subprocess.PIPE).stdout.splitlines()
subj = {l.split(" ", 1)[1]: l.split(" ", 1)[0] for l in log}
for p in sorted(glob.glob(os.path.join(VERIF, "findings.d", "*.json"))):
    d = json.load(open(p)); ch = False
    for f in d.get("findings", []):
        st = str(f.get("status", ""))
        if st.startswith("fixed") and ("pending" in st.lower()):
            patch = f.get("patch") or f.get("fix") or ""
            m = os.path.join(VERIF, patch.replace(".patch", ".msg")) if patch else None
            if m and os.path.exists(m):
                s = open(m).readline().strip()
                if s in subj:
                    f["status"] = "fixed: " + subj[s]; ch = True
                    print(os.path.basename(p), f["id"], "->", subj[s])
                    continue
            print(os.path.basename(p), f["id"], "UNRESOLVED (patch=%r)" % patch)
    if ch:
        json.dump(d, open(p, "w"), indent=1); open(p, "a").write("\n")
